"""SpeedProfile group: C02 (enforced profile never above a posted limit), C13 (exactly the tightest)."""


def nontrivial(d):
    # at least one restriction below the train's own maximum speed
    t = d["train"]
    vmax = min([t["vmax"]] + [y["vmax"] for y in t.get("more", []) if y["n"] > 0])
    return any(abs(r[2]) < vmax for l in d["links"] for r in l["rs"])


def _corrupt(ev, delta, expect):
    """Changes the limit of the last point that lies under a restriction in one recorded profile."""
    for i, e in enumerate(ev):
        if e.get("ev") == "Profile" and e.get("via") == "bylink" and len(e["pts"]) >= 3:
            j = len(e["pts"]) - 2
            e["pts"][j][1] += delta * (8 if e["pts"][j][1] > 16 else 1)
            return ev, i, expect
    return None


RULE = ("cases = every configuration reached by TLC in the bounded SpeedProfile configs (restriction lists per link, "
        "head/tail sets, gates, train make-up) + seeded random metre-scale layouts; distinct = distinct case "
        "descriptors (sha256); non-trivial = at least one restriction below the train's maximum speed")

ASSUME = ["networks are materialised through Network::from_json (validation accepted them)",
          "finite non-zero restriction speeds, negative values being the sign-encoded variant the simulator enforces by magnitude; trains of one to three car types, a type possibly listed with 0 cars, optional explicit train length / towed mass: the spec derives length, maximum speed (slowest type present), towed mass, brakes and axles from the make-up itself (gates compare towed mass, towed mass / brakes by cross-multiplication, axles); no rotating mass",
          "step functions are compared at every breakpoint of either side (decides equality everywhere)"]

GROUP = dict(
    name="speed", bin="avh_speed",
    model_spec="MCSpeedProfile.tla", trace_spec="SpeedProfileTrace.tla", trace_cfg="SpeedProfileTrace.cfg",
    models={
        "quick": [dict(cfg="MCSpeedProfile_quickA.cfg", emit=True, max_emit=4000),
                  dict(cfg="MCSpeedProfile_gates.cfg", emit=True),
                  dict(cfg="MCSpeedProfile_makeup.cfg", emit=True, max_emit=1200),
                  dict(cfg="MCSpeedProfile_quickN.cfg", emit=True, max_emit=1000),
                  dict(cfg="MCSpeedProfile_quickB.cfg", emit=False, timeout=300, coverage=False)],
        "thorough": [dict(cfg="MCSpeedProfile_quickA.cfg", emit=True),
                     dict(cfg="MCSpeedProfile_gates.cfg", emit=True),
                     dict(cfg="MCSpeedProfile_makeup.cfg", emit=True),
                     dict(cfg="MCSpeedProfile_quickN.cfg", emit=True),
                     dict(cfg="MCSpeedProfile_quickB_emit.cfg", emit=True, max_emit=30000, workers=16, timeout=900, coverage=False),
                     dict(cfg="MCSpeedProfile_thoroughA.cfg", emit=False, workers=16, timeout=1800),
                     dict(cfg="MCSpeedProfile_thoroughB.cfg", emit=False, workers=16, timeout=3600)],
    },
    gen_n={"quick": 400, "thorough": 6000},
    per_case_ms=20000,
    trace_timeout={"quick": 600, "thorough": 2400},
    nontrivial=nontrivial,
    rule=RULE,
    props={
        "C02": dict(invariants=["Safe"], assumptions=ASSUME, exhaustive=False),
        "C13": dict(invariants=["Exact", "Canonical", "SameByEveryPath", "ExtendOk", "NoPanic"], assumptions=ASSUME),
    },
    sigs={},
    fault_models=[dict(cfg="MCSpeedProfile_pinned.cfg", expect=["Exact"])],   # the pinned insert_speed: TLC re-finds F-C13-1
    corrupt={
        "raise_limit": lambda ev: _corrupt(ev, +1, ["Safe", "Exact", "SameByEveryPath", "Canonical"]),
        "lower_limit": lambda ev: _corrupt(ev, -1, ["Exact", "SameByEveryPath", "Canonical"]),
    },
    vacuity=lambda r: ("no profile was recorded" if r["stats"].get("profiles", 0) == 0 else
                       "more than half of the generated networks were rejected" if r["stats"].get("skipped", 0) * 2 > r["n_cases"] else None),
)

ENGINE = dict(name="SpeedProfile", path="specs/SpeedProfile.tla", serves_properties=["C02", "C13"],
              kind_free_text="TLA+ spec (Level A Canon/Safe/Exact/Canonical over a train make-up; Level B transcription of insert_speed/add_speeds), "
                             "TLC exhaustive on bounded layouts, every configuration replayed into real PathTpc/TrainSimBuilder/"
                             "SpeedLimitTrainSim, recorded profiles validated by TLC (SpeedProfileTrace.tla)")
_NOTE = ("Trusted: TLC, the JSON projection of PathTpc (serde), the harness materialisation of the abstract layout as a "
         "Network (validated by altrios itself). Bounded: exhaustive only up to the lattice bounds of the MC configs; "
         "random metre-scale layouts beyond.")
_TECH = "TLA+ spec + TLC model checking + spec->impl replay + TLC trace validation"
MANIFEST = {
    "C02": dict(engine="SpeedProfile", design_ref="3 (C02 / C13)", technique=_TECH,
                text="TLC checks Safe on every reachable state of the bounded SpeedProfile model (all sorted restriction lists per "
                     "link, head/tail sets, gates, 1-3 links, train make-ups of several car types whose length / maximum speed / mass / "
                     "brakes / axles the spec derives itself) and re-evaluates Safe on the profile the real code built for every one of "
                     "those configurations through seven construction paths (incl. Network::set_speed_set_for_train_type), plus seeded random layouts.",
                note=_NOTE),
    "C13": dict(engine="SpeedProfile", design_ref="3 (C02 / C13)", technique=_TECH,
                text="Same runs as C02; TLC evaluates Exact (pointwise equality with the canonical minimum at every breakpoint), "
                     "Canonical and SameByEveryPath on every recorded profile. Found and led to the repair of F-C13-1.",
                note=_NOTE),
}
