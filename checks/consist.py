"""ConsistSplit group: C10 (consist power split conserves demand and honours each unit's capability).

Also evaluates the consist-level clause of C01 ("consist-level fuel, battery and wheel totals equal the sums over
its locomotives") on every recorded state, under invariant names prefixed `Roll`; they are NOT attributed to C10
(see extra_invariants_for_C01 below — for the owner of C01 to wire up).
"""

# Invariants of ConsistSplit.tla / ConsistSplitTrace.tla that express the consist roll-up clause of C01.
# Evaluated by TLC on every recorded step of every case of this group (API pass and ConsistSimulation::walk pass);
# failures appear in the group result's `viols` as [line, case, name] like any other invariant.
extra_invariants_for_C01 = [
    "RollPwrOut",      # consist.state.pwr_out    = sum loco.state.pwr_out                  (accepted steps)
    "RollPwrFuel",     # consist.state.pwr_fuel   = sum fc.state.pwr_fuel                   (accepted steps)
    "RollPwrRes",      # consist.state.pwr_reves  = sum res.state.pwr_out_chemical          (accepted steps)
    "RollEnergyOut",   # consist.state.energy_out  = sum loco.state.energy_out              (every step, cumulative)
    "RollEnergyFuel",  # consist.state.energy_fuel = sum fc.state.energy_fuel               (every step, cumulative)
    "RollEnergyRes",   # consist.state.energy_res  = sum res.state.energy_out_chemical      (every step, cumulative)
    "RollGetFuel",     # Consist::get_energy_fuel()    = sum fc.state.energy_fuel           (live states)
    "RollGetRes",      # Consist::get_net_energy_res() = sum res.state.energy_out_chemical  (live states)
]
# Recorded but owned by no property of this group: NoPanic (a panic inside the split, e.g. RESGreedy's own
# assert_almost_eq_uom, is neither an accepted nor a judged step), HarnessOk, KindsAsBuilt (harness sanity).


def nontrivial(d):
    # a split exists (two or more units) and at least one step asks for something
    return len(d["units"]) >= 2 and any(s != "zero" for s in d["steps"])


def _offenders(e, lim=True):
    """units of an accepted pulling step that were told to brake / got more than they published (the latter is not
    judged for a demand above the published consist limit with limit checking off: ConsistSplit!InRangePos)"""
    if e.get("ev") != "Step" or not e.get("acc") or e.get("sg", 0) <= 0:
        return []
    slack = 0 if e.get("exact") else 1      # slack of RangePos on off-lattice records (ConsistSplit.tla)
    ranged = lim or e["req"] <= e["agg"]["out_max"]
    return [i for i in range(len(e["p"]))
            if e["p"][i] < 0 or (ranged and e["p"][i] > e["pub"][i] + slack) or e["mpo"][i] < 0 or e["mdb"][i] != 0]


def sig_bel_negative_pub(desc, events, inv):
    """F-C10-1: every unit that brakes while the consist pulls is a battery unit that itself PUBLISHED a negative
    traction limit (discharge limit below its aux load, i.e. at its minimum SOC)."""
    if inv not in ("RangePos", "NoOpposite"):
        return False
    seen = False
    for e in events:
        for i in _offenders(e, bool(desc.get("lim", True))):
            if not (e["kind"][i] == "B" and e["pub"][i] < 0):
                return False
            seen = True
    return seen


RULE = ("cases = every maximal behaviour (composition, policy, sequence of demand classes) reached by TLC in the bounded "
        "ConsistSplit configs, replayed into a real Consist + seeded random mixed consists of 1-8 dyadic units with "
        "ramp/SOC histories, a fifth of them with limit checking off and demands far above the published limit + the materialised inputs of known findings; distinct = distinct case descriptors (sha256); "
        "non-trivial = at least two units and at least one non-zero demand; every step of every case is a judged state")

ASSUME = ["only ACCEPTED steps are judged (Err from Consist::solve_energy_consumption = rejected; the harness restores a "
          "clone, as walk would stop); a panic inside the split is recorded as NoPanic and not attributed to C10",
          "both modes of limit checking (Consist::set_assert_limits(true|false), handed down to every unit): an accepted step "
          "is a call that returned Ok in either mode. With limit checking off the consist neither refuses a demand outside "
          "[-pwr_dyn_brake_max, pwr_out_max] nor checks the sum of the shares (consist_model.rs:270-289, :319); the units' own "
          "ensure! (generator / drivetrain ratings, battery limits; not the engine's) still refuse shares. Reading of the "
          "statement: Sum, Zero, NoOpposite, Regen, BatteryFirst and the Roll* roll-ups of C01 are judged on every accepted "
          "step of either mode; RangePos / RangeNeg in either mode for every demand inside the consist's published range, and "
          "NOT with limit checking off for a demand beyond it (the shares of a demand above the sum of the published limits "
          "cannot all be within them while summing to the demand - refusing such a demand is what limit checking is)",
          "units are ConventionalLoco / BatteryElectricLoco with dyadic toy-scale parameters (ratings 32..384 W, flat "
          "efficiencies 1 or 1/2, aux 0..4 W, dt 1/2..2 s); policies RESGreedy and Proportional (the two implemented ones)",
          "domain predicate: every unit publishes a non-negative traction limit; a battery unit whose discharge limit is "
          "below its aux load publishes a negative one — that class is the known finding F-C10-1, ended by an OutOfDomain "
          "event in generated cases and represented by known/consist-negpub-*.json",
          "powers are compared at 1/16 W: order relations with tolerance 0 (rounding is monotone) except the upper bound of "
          "a share, which gets one unit on off-lattice records (the f64 share pub/total*req may be 1 ulp above pub, accepted "
          "by the units' own almost_le TOL=1e-3, reversible_energy_storage.rs:6, fuel_converter.rs:5); sums with N/2+1 units "
          "+ the code's own almost_eq epsilon (utils/mod.rs:148)"]

# quickA: 1-2 units, 3 steps; quickB: 3 units, 2 steps (emission thinned 1-in-4 / 1-in-8 inside TLC, the check is not).
# quickN: limit checking off (1-2 units, 2 steps, demands up to twice the published consist limit).
_QUICK = [dict(cfg="MCConsistSplit_quickA.cfg", emit=True, max_emit=5000, workers=8, timeout=300),
          dict(cfg="MCConsistSplit_quickB.cfg", emit=True, max_emit=5000, workers=8, timeout=300),
          dict(cfg="MCConsistSplit_quickN.cfg", emit=True, max_emit=2000, workers=8, timeout=300)]
# allA = 1-2 units with every start class, every behaviour emitted; thoroughA: 3 units, 3 steps; thoroughB: 4 units,
# 2 steps; sim: 5-8 units by -simulate (one worker and -seed VERIF_SEED: the sample is reproducible).
_THOROUGH = [dict(cfg="MCConsistSplit_allA.cfg", emit=True, max_emit=30000, workers=8, timeout=900),
             dict(cfg="MCConsistSplit_quickN.cfg", emit=True, max_emit=13000, workers=8, timeout=900),
             dict(cfg="MCConsistSplit_thoroughA.cfg", emit=True, max_emit=20000, workers=8, timeout=1800),
             dict(cfg="MCConsistSplit_thoroughB.cfg", emit=True, max_emit=20000, workers=8, timeout=2400),
             dict(cfg="MCConsistSplit_sim.cfg", emit=True, max_emit=15000, workers=1, timeout=900,
                  simulate="num=15000", coverage=False)]


# ---- bin/selftest consist ---------------------------------------------------------------------------------------
# fault models: deliberately wrong Level-B variants (CONSTANT Fault of ConsistSplit.tla) / the F-C10-1 start class;
# TLC must report the invariant each is aimed at.
FAULT_MODELS = [
    dict(cfg="MCConsistSplit_fault_drop_last_share.cfg", expect=["Sum"]),
    dict(cfg="MCConsistSplit_fault_surplus_by_rating.cfg", expect=["RangeNeg"]),
    dict(cfg="MCConsistSplit_fault_fuel_first.cfg", expect=["BatteryFirst"]),
    dict(cfg="MCConsistSplit_fault_edrv_no_regen_clip.cfg", expect=["Regen"]),
    dict(cfg="MCConsistSplit_minsoc.cfg", expect=["RangePos", "NoOpposite"]),      # F-C10-1 re-found in the model
]


def _corrupt(pred, change, expect):
    """corrupts the first call-by-call Step record satisfying pred(event, desc) -> (lines, index, expected names)"""
    def fn(ev):
        desc = {}
        for i, e in enumerate(ev):
            if e.get("ev") == "begin":
                desc = e["desc"]
            if e.get("ev") == "Step" and e.get("via") == "api" and e.get("acc") and pred(e, desc):
                change(e)
                return ev, i, expect
        return None
    return fn


def _idx(e, cond):
    return next(i for i in range(len(e["p"])) if cond(i))


def _has(e, cond):
    return any(cond(i) for i in range(len(e["p"])))


def _bf_pred(e, d):
    n = len(e["p"])
    return (d["pdct"] == "RESGreedy" and e["sg"] > 0 and "C" in e["kind"]
            and _has(e, lambda i: e["kind"][i] == "B" and e["p"][i] >= 64)
            and e["req"] + n <= sum(e["pub"][i] for i in range(n) if e["kind"][i] == "B"))


def _bf_change(e):
    b = _idx(e, lambda i: e["kind"][i] == "B" and e["p"][i] >= 64)
    c = e["kind"].index("C")
    for k in ("p", "mpo"):
        e[k][b] -= 48
        e[k][c] += 48


def _tot(key, by):
    return _corrupt(lambda e, d: True, lambda e: e["tot"].__setitem__(key, e["tot"][key] + by + len(e["p"])), None)


CORRUPT = {
    "share_lost": _corrupt(lambda e, d: e["sg"] != 0 and len(e["p"]) >= 2,
                           lambda e: e["p"].__setitem__(0, e["p"][0] + 8 + len(e["p"])), ["Sum"]),
    # ... the same on a consist running with limit checking off (the code's own sum check is disabled there)
    "share_lost_limits_off": _corrupt(lambda e, d: d.get("lim", True) is False and e["sg"] != 0 and len(e["p"]) >= 2,
                                      lambda e: e["p"].__setitem__(0, e["p"][0] + 8 + len(e["p"])), ["Sum"]),
    "share_above_published_limit": _corrupt(lambda e, d: e["sg"] > 0 and _has(e, lambda i: e["p"][i] > 8),
                                            lambda e: e["pub"].__setitem__(_idx(e, lambda i: e["p"][i] > 8),
                                                                           e["p"][_idx(e, lambda i: e["p"][i] > 8)] - 2),
                                            ["RangePos"]),
    "braking_above_drivetrain_rating": _corrupt(lambda e, d: e["sg"] < 0 and _has(e, lambda i: e["p"][i] < -8),
                                                lambda e: e["rat"].__setitem__(_idx(e, lambda i: e["p"][i] < -8),
                                                                               -e["p"][_idx(e, lambda i: e["p"][i] < -8)] - 1),
                                                ["RangeNeg"]),
    "power_at_zero_demand": _corrupt(lambda e, d: e["sg"] == 0 and len(e["p"]) >= 2,
                                     lambda e: (e["p"].__setitem__(0, 4), e["p"].__setitem__(1, -4)), ["Zero"]),
    "dyn_brake_while_pulling": _corrupt(lambda e, d: e["sg"] > 0, lambda e: e["mdb"].__setitem__(0, 5), ["NoOpposite"]),
    "conventional_unit_regenerates": _corrupt(lambda e, d: e["sg"] < 0 and "C" in e["kind"],
                                              lambda e: e["mpo"].__setitem__(e["kind"].index("C"), -4), ["Regen"]),
    "regen_above_published_limit": _corrupt(lambda e, d: e["sg"] < 0 and _has(e, lambda i: e["kind"][i] == "B" and e["mpo"][i] < -8),
                                            lambda e: e["rgn"].__setitem__(_idx(e, lambda i: e["kind"][i] == "B" and e["mpo"][i] < -8),
                                                                           -e["mpo"][_idx(e, lambda i: e["kind"][i] == "B" and e["mpo"][i] < -8)] - 1),
                                            ["Regen"]),
    "fuel_unit_used_though_battery_covers": _corrupt(_bf_pred, _bf_change, ["BatteryFirst"]),
    "roll_pwr_out": _tot("p_out", 8), "roll_pwr_fuel": _tot("p_fuel", 8), "roll_pwr_res": _tot("p_res", 8),
    "roll_energy_out": _tot("e_out", 8), "roll_energy_fuel": _tot("e_fuel", 8), "roll_energy_res": _tot("e_res", 8),
    "roll_get_fuel": _tot("g_fuel", 8), "roll_get_res": _tot("g_res", 8),
}
for _k, _n in (("roll_pwr_out", "RollPwrOut"), ("roll_pwr_fuel", "RollPwrFuel"), ("roll_pwr_res", "RollPwrRes"),
               ("roll_energy_out", "RollEnergyOut"), ("roll_energy_fuel", "RollEnergyFuel"), ("roll_energy_res", "RollEnergyRes"),
               ("roll_get_fuel", "RollGetFuel"), ("roll_get_res", "RollGetRes")):
    CORRUPT[_k] = (lambda f, n: (lambda ev: (lambda r: None if r is None else (r[0], r[1], [n]))(f(ev))))(CORRUPT[_k], _n)


def _vacuity(r):
    s = r["stats"]
    if r["n_cases"] <= 3:       # --replay of a single case
        return None
    for k in ("accepted", "rejected", "pos", "neg", "zero", "regen_deficit", "out_deficit", "walk_steps", "toy_steps", "nolim_cases", "nolim_steps", "nolim_over"):
        if s.get(k, 0) == 0:
            return f"no recorded step of kind '{k}'"
    if s.get("out_of_domain", 0) * 10 > r["n_cases"]:
        return "more than a tenth of the cases left the domain (negative published limit)"
    if s.get("publish_err", 0) * 10 > r["n_cases"]:
        return "set_cur_pwr_max_out failed in more than a tenth of the cases"
    return None


GROUP = dict(
    name="consist", bin="avh_consist",
    model_spec="MCConsistSplit.tla", trace_spec="ConsistSplitTrace.tla", trace_cfg="ConsistSplitTrace.cfg",
    models={"quick": _QUICK, "thorough": _THOROUGH},
    gen_n={"quick": 1500, "thorough": 10000},
    per_case_ms=20000,
    nontrivial=nontrivial,
    rule=RULE,
    props={
        "C10": dict(invariants=["Sum", "RangePos", "RangeNeg", "Zero", "NoOpposite", "Regen", "BatteryFirst"],
                    assumptions=ASSUME, exhaustive=False),
    },
    sigs={"bel_negative_pub": sig_bel_negative_pub},
    fault_models=FAULT_MODELS, corrupt=CORRUPT, selftest_cases=60,
    vacuity=_vacuity,
    harness_timeout={"quick": 300, "thorough": 1800},
    trace_timeout={"quick": 300, "thorough": 1800},
)

ENGINE = dict(name="ConsistSplit", path="specs/ConsistSplit.tla", serves_properties=["C10"],
              kind_free_text="TLA+ spec (Level A Sum/RangePos/RangeNeg/Zero/NoOpposite/Regen/BatteryFirst + Roll*; Level B "
                             "transcription of Consist::set_cur_pwr_max_out, RESGreedy/Proportional::solve_positive_traction, "
                             "solve_negative_traction on share numerators over a common denominator, toy-unit pre-history), "
                             "TLC exhaustive on all compositions of 1-4 units x rating classes x start classes x both policies x "
                             "17 demand classes (5-8 units by simulation), every behaviour replayed into real Consists and "
                             "ConsistSimulation::walk, recorded states validated by TLC (ConsistSplitTrace.tla)")
_NOTE = ("Trusted: TLC, the projection of Consist/Locomotive/ElectricDrivetrain state fields (read directly, Q-encoded at "
         "1/16 W), the toy-unit table shared by spec and harness. Bounded: exhaustive up to 4 units / 3 rating classes / 2-4 "
         "steps; 5-8 units and non-toy parameters only by simulation and seeded random cases. Rejected requests and panics "
         "are outside the property. Known finding F-C10-1 (battery unit publishing a negative traction limit at minimum "
         "SOC is told to brake while the consist pulls) is excluded from the generated domain and replayed from known/.")
_TECH = "TLA+ spec + TLC model checking + spec->impl replay + TLC trace validation"
MANIFEST = {
    "C10": dict(engine="ConsistSplit", design_ref="3 (C10)", technique=_TECH,
                text="TLC checks the seven Level-A invariants on every reachable state of the bounded ConsistSplit model (all "
                     "words over {conventional, battery} of 1-4 units x rating classes {1,2,3} x start classes, both policies, 17 "
                     "demand classes at / just below / just above every aggregate limit, pre-histories of up to 3 steps) and "
                     "re-evaluates them on every step the real Consist accepted for those behaviours and for seeded random "
                     "consists of 1-8 units, driven through the public API and through ConsistSimulation::walk, with limit checking on and off "
                     "(Consist::set_assert_limits(false): demands up to twice the published consist limit; the range clauses are "
                     "then judged for demands inside the published range only, see the assumptions).",
                note=_NOTE),
}
