"""Dispatch group: C04 (no conflicting occupancy), C05 (complete valid plan or explicit error),
C15 (estimated-time network well-formed) — one pipeline: scenario -> make_est_times -> run_dispatch
with the add-only observer hook -> TLC (DispatchTrace.tla)."""

ALLRULES = ["Advance", "Commit", "Rewind", "Reroute", "Init"]


def nontrivial(d):
    # at least two trains, or one train on a network with an alternative route
    return len(d["trains"]) >= 2 or any(s[0] == "S" for s in d["stages"])


def sig_fake_alt_negative(desc, events, inv):
    """F-C15-1: the only negative scheduled times are those of Fake nodes that are the alternate child
    of a split (the backward pass shifts the faster alternate before its split / before departure)."""
    if inv != "TimesNonNeg":
        return False
    nets = [e for e in events if e.get("ev") == "Net"]
    if not nets:
        return False
    for e in nets:
        ns = e["nodes"]
        for i, n in enumerate(ns):
            if n[0] < 0:
                p = n[5]
                if not (n[8] == 3 and 0 <= p < len(ns) and ns[p][4] == i):
                    return False
    return True


def sig_origin_split_later(desc, events, inv):
    """F-C15-4: the backward pass of update_times aligns the branches of a split at their join (or at the common end
    node), so when the branch entered through the ALTERNATE edge is the faster one the Fake node that opens it is
    scheduled later than the split it hangs off, although alternate edges have duration 0 (seen with two origin /
    destination links, and with sidings whose primary track has the lower speed limit). In the class: only alternate
    edges into a Fake child; a primary edge, or an alternate edge into a real node, is still a violation."""
    if inv != "NoLater":
        return False
    nets = [e for e in events if e.get("ev") == "Net"]
    if not nets:
        return False
    seen = False
    for e in nets:
        ns = e["nodes"]
        for p, n in enumerate(ns):
            if n[3] != 0 and ns[n[3]][0] > n[0] + n[1] + 2:
                return False                      # a primary edge: not this class
            if n[4] != 0 and ns[n[4]][0] > n[0] + 2:
                if ns[n[4]][8] != 3:
                    return False
                seen = True
    return seen


def sig_short_route(desc, events, inv):
    """F-C15-3 / F-C05-1: the whole route is not longer than 5 miles + the train: SavedSim::update_movement
    (est_time_structs.rs:52) only steps while offset < offset_end - 5 mi or (finished and speed > 0), so a train that
    starts at rest within 5 miles of the end of its route never moves, and the returned network stops at the origin link."""
    if inv not in ("RouteFaithful", "RouteValid"):
        return False
    total_m = 100 * sum(st[1] for st in desc["stages"])
    return any(total_m - 8047 <= 18 * t["ncars"] + 50 for t in desc["trains"])


def _shift(ev):
    """Re-times the second train's plan so that it starts together with the first one (in a final snapshot):
    opposing trains then run through each other, following trains enter every link simultaneously."""
    for i, e in enumerate(ev):
        if e.get("ev") == "Snap" and e["kind"] == "final" and len(e["plan"]) >= 2:
            a0 = [n[2] for n in e["plan"][0] if n[0] == 1]
            a1 = [n[2] for n in e["plan"][1] if n[0] == 1]
            if a0 and a1 and a1[0] != a0[0]:
                d = a1[0] - a0[0]
                for n in e["plan"][1]:
                    if n[2] < 2 ** 30:
                        n[2] -= d
                return ev, i, ["OppExclusive", "Headway", "Fifo", "LockoutExclusive"]
    return None


def _drop(ev):
    for i, e in enumerate(ev):
        if e.get("ev") == "Result" and e["ok"] and len(e["plan"]) >= 2:
            e["plan"].pop()
            return ev, i, ["Complete", "RouteValid", "ResultIsFinalPlan"]
    return None


def _backlink(ev):
    for i, e in enumerate(ev):
        if e.get("ev") == "Net" and len(e["nodes"]) > 6:
            e["nodes"][4][5] = 1          # prev of node 4 no longer points at its predecessor
            return ev, i, ["Linked", "PrimaryEq"]
    return None


def vacuity(r):
    s = r["stats"]
    cap = (r.get("tags", {}).get("VIOLCAP") or [{}])[0]
    if cap and cap.get("recorded", 0) >= cap.get("cap", 1):
        return "the trace spec stopped recording failures at its cap: some failures were not examined"
    if s.get("snaps", 0) == 0:
        return "no dispatcher snapshot was recorded (hook not compiled in?)"
    if s.get("nets", 0) == 0:
        return "no estimated-time network was recorded"
    if s.get("results_ok", 0) == 0:
        return "no scenario was dispatched successfully"
    if s.get("opp_pairs", 0) == 0 or s.get("follow_pairs", 0) == 0:
        return "no opposing / following pair of occupancy windows in any final plan"
    # gate coverage: every term of the Level-B entry gate must have been the binding one somewhere in the run
    for k in ("bind_base", "bind_spacing", "bind_flip", "bind_lock", "bind_lead"):
        if s.get(k, 0) == 0:
            return f"gate coverage: the term {k[5:]} of the entry gate was never binding in this run"
    return None


def _M(cfg, **kw):
    # only the n1f networks have Fake nodes in their routes
    if "n1f" not in cfg:
        kw["may_be_zero"] = tuple(kw.get("may_be_zero", ())) + ("AdvanceFake",)
    return dict(cfg=cfg, spec="MCDispatch.tla", **kw)
GROUP = dict(
    name="dispatch", bin="avh_dispatch",
    model_spec="MCDispatch.tla", trace_spec="DispatchTrace.tla", trace_cfg="DispatchTrace.cfg",
    models={
        "quick": [_M("MCDispatch_n1_2.cfg"), _M("MCDispatch_n1_3.cfg"), _M("MCDispatch_n0_3.cfg", may_be_zero=("Reroute",)),
                  _M("MCDispatch_n2_2.cfg"), _M("MCDispatch_nl_3.cfg", may_be_zero=("Reroute",)),
                  _M("MCDispatch_live.cfg", coverage=False),
                  # Fake marker nodes in the routes (the step over a Fake node at a blockage, F-C05-3)
                  _M("MCDispatch_n1f_2.cfg", coverage=False), _M("MCDispatch_n1f_3.cfg"),
                  dict(cfg="MCDispatchScen_2.cfg", spec="MCDispatchScen.tla", emit=True, max_emit=110, coverage=False),
                  # three trains on plain sidings, every direction word and tie / sub-headway gap (finishing order != index order)
                  dict(cfg="MCDispatchScen_3s.cfg", spec="MCDispatchScen.tla", emit=True, max_emit=140, coverage=False)],
        "thorough": [_M("MCDispatch_n1_2.cfg"), _M("MCDispatch_n1_3.cfg"), _M("MCDispatch_n1_3tie.cfg"),
                     _M("MCDispatch_n1_3same.cfg"), _M("MCDispatch_n1_eew.cfg"), _M("MCDispatch_n0_3.cfg", may_be_zero=("Reroute",)),
                     _M("MCDispatch_n2_2.cfg"), _M("MCDispatch_n2_3.cfg", workers=16, timeout=1800),
                     _M("MCDispatch_n1_4.cfg", workers=16, timeout=1800),
                     _M("MCDispatch_nl_3.cfg", may_be_zero=("Reroute",)), _M("MCDispatch_nl_live.cfg", coverage=False),
                     _M("MCDispatch_live.cfg", coverage=False), _M("MCDispatch_live3.cfg", coverage=False, timeout=1800),
                     _M("MCDispatch_n1f_2.cfg", coverage=False), _M("MCDispatch_n1f_3.cfg"),
                     dict(cfg="MCDispatchScen_3.cfg", spec="MCDispatchScen.tla", emit=True, max_emit=1000, workers=8, coverage=False, timeout=1800)],
    },
    gen_n={"quick": 130, "thorough": 1000},
    per_case_ms=60000,
    harness_timeout={"quick": 600, "thorough": 3600},
    trace_timeout={"quick": 600, "thorough": 3600},
    nontrivial=nontrivial,
    rule=("cases = meet-pass scenarios: TLC-enumerated (topology pattern x lockouts x train words over direction / departure "
          "gap incl. ties / length class / maximum speed / junction branch incl. two-origin trains) + seeded random ones: "
          "corridors with 0-3 sidings (tracks with equal or different speed limits, primary often the slower), 1-2 link mains of "
          "3-30 km, metre-precise link lengths incl. links 0-15 m longer than a train, lockout foul links, two-branch junctions "
          "at either end (one or two origin / destination links per train), diamond crossings with long mutually exclusive "
          "crossing links, grades, 1-7 trains of 15-150 cars with maximum speeds 5-20 m/s; composite networks in a general "
          "graph form (9 in 20): a yard-lead origin link mutually exclusive with a crossing link of another line, two branches "
          "converging on a link shorter than the trains followed by a crossing and sidings with locked switch links, convoys "
          "of 3-4 closely following trains over 2-3 sidings; each goes through make_est_times "
          "and run_dispatch with the observer hook; distinct = distinct descriptors; non-trivial = >= 2 trains or an "
          "alternative route"),
    props={
        "C04": dict(invariants=["OppExclusive", "LockoutExclusive", "Headway", "Fifo"],
                    assumptions=["occupancy windows are derived from each train's own timed plan (disp_path), not from "
                                 "DispAuth.arrive_entry which update_occupancy rewrites when a train exits (observation F-C04-1)",
                                 "'following' = consecutive users of a directed link with no opposing use of the segment in between "
                                 "(the code applies spacing only then); headway = the dispatcher's time_spacing (8 min)",
                                 "a train longer than the rest of its route (destination link shorter than the train) holds its links "
                                 "until it leaves the network: the planner treats it as gone when its path ends (observation F-C04-2)",
                                 "scenario family: corridors, sidings, lockout foul links, two-branch junctions, diamond crossings, "
                                 "and three composite families (yard lead, converging junction + crossing, convoy)"]),
        "C05": dict(invariants=["RouteValid", "Complete", "HaveFinalSnapshot", "ResultIsFinalPlan", "AllTimed", "AllCommitted",
                                "FreeRun", "PlanIsWalk", "ErrNamesTrains", "NoPanic", "FinalAllTimed", "MonotonePlan"],
                    assumptions=["memory safety is observed, not proved: the harness build has debug assertions, overflow checks and "
                                 "unsafe-precondition checks on, so an out-of-range get_unchecked aborts the process and is recorded",
                                 "termination: per-scenario wall-clock limit (60 s) in the harness",
                                 "a crash during make_est_times is outside C05's antecedent and only counted (est_panic)"]),
        "C15": dict(invariants=["RefsInRange", "Linked", "AllWalksEnd", "RouteFaithful", "TimesFinite", "DurationsNonNeg",
                                "TimesNonNeg", "PrimaryEq", "NoLater"],
                    assumptions=["the clause about the reported free-running trip time is not checked: get_running_time_hours exists "
                                 "only in the pyo3 build of altrios-core",
                                 "times compared at 1 ms resolution with a tolerance of 2 ms"]),
    },
    sigs={"fake_alt_negative": sig_fake_alt_negative, "short_route": sig_short_route,
          "origin_split_later": sig_origin_split_later},
    fault_models=[dict(cfg="MCDispatch_fault_flip.cfg", expect=["OppExclusive"]),
                  dict(cfg="MCDispatch_fault_lock.cfg", expect=["LockoutExclusive"]),
                  dict(cfg="MCDispatch_fault_prevce.cfg", expect=["Fifo", "Headway"]),
                  dict(cfg="MCDispatch_fault_lead.cfg", expect=["Fifo", "Headway"]),
                  dict(cfg="MCDispatch_fault_quiet.cfg", expect=["Fifo", "Headway", "OppExclusive"]),
                  dict(cfg="MCDispatch_fault_spacing.cfg", expect=["Headway"]),
                  dict(cfg="MCDispatch_fault_exitce.cfg", expect=["AuthAgrees", "Progress", "temporal"]),
                  dict(cfg="MCDispatch_fault_faketime.cfg", expect=["TimedPrefix"])],
    selftest_cases=25,
    corrupt={"shift_plan_earlier": lambda ev: _shift(ev), "drop_train": lambda ev: _drop(ev),
             "break_backlink": lambda ev: _backlink(ev)},
    vacuity=vacuity,
    drift_report=lambda r: (f"{r['stats'].get('tau_drift', 0)} of {r['stats'].get('tau_checked', 0)} node times differ from the gate "
                            f"formula of Dispatch!Advance; {r['stats'].get('auth_disagree', 0)} snapshots whose authority table "
                            f"disagrees with the plans; {r['stats'].get('committed_unstable', 0)} with changed committed nodes; "
                            f"{r['stats'].get('untimed_prefix', 0)} with an untimed node below a free index (Dispatch!TimedPrefix); "
                            f"{r['stats'].get('not_walk', 0)} whose path is not a walk of the est-time net; "
                            f"{r['stats'].get('blocked_disagree', 0)} whose blocked table disagrees with the authorities")
    if any(r["stats"].get(k, 0) for k in ("tau_drift", "auth_disagree", "committed_unstable", "untimed_prefix", "not_walk", "blocked_disagree")) else None,
)

ENGINE = dict(name="Dispatch", path="specs/Dispatch.tla", serves_properties=["C04", "C05", "C15"],
              kind_free_text="TLA+ spec of the meet-pass planner (Level A: occupancy windows / exclusion / headway / fifo / plan validity; "
                             "Level B: abstract planner with the gating rules of TrainDisp::advance, all schedules on small networks, "
                             "fault configs dropping each rule) + EstTimeNet.tla predicates; trace validation of observer-hook snapshots")
_TECH = "TLA+ spec + TLC model checking of all planner schedules + TLC trace validation of hook snapshots"
MANIFEST = {
    "C04": dict(engine="Dispatch", design_ref="3 (C04)", technique=_TECH,
                text="TLC explores every schedule (which train advances / commits / rewinds / re-routes) of the abstract planner on "
                     "single-track, siding and lockout networks with 2-4 trains and checks exclusion, headway and order; the same "
                     "TLA+ operators are then evaluated on every internal snapshot (after every train move, and the final one) that "
                     "the real run_dispatch produced for TLC-enumerated and random scenarios.",
                note="Trusted: TLC; the observer hook (add-only, cfg altrios_verif) and its JSON projection; windows derived from plans. "
                     "Exhaustive only for the abstract model on small networks; the implementation is sampled by scenarios."),
    "C05": dict(engine="Dispatch", design_ref="3 (C05)", technique=_TECH,
                text="Every returned plan is judged by TLC clause by clause (origin, departure, destination, contiguity in the header's "
                     "network, monotone times, free-run durations against the est-time edges, completeness, error naming trains); "
                     "panics, aborts (checked build) and hangs during dispatch are recorded events that no spec action matches.",
                note="Memory safety and termination are observed through a checked build and a watchdog, not proved."),
    "C15": dict(engine="Dispatch", design_ref="3 (C15)", technique="TLA+ predicates evaluated by TLC on recorded est-time networks",
                text="Every EstTimeNet returned by make_est_times for every train of every scenario is one trace record on which TLC "
                     "evaluates Linked, AllWalksEnd (all start-to-end walks enumerated), RouteFaithful, the time predicates.",
                note="No Level-B transcription of the join/relink passes; trip-time getter unreachable without pyo3."),
}
