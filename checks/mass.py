"""MassLedger group: C20 (mass and traction-limit parameters stay mutually consistent under every update)."""
import itertools

BASE = ["ComponentConsistent", "LocoConsistent", "Traction", "ConsistMass", "ConsistForce", "TrainStatic",
        "Atomic", "OptionSemantics", "Frame"]

# TLC reports "<invariant>@<input class>" (MassLedgerTrace.tla: CallKey / LoadKey): the class is
# setter / option / known-ness pattern of the addressed object before the call.
_PAT = [f"mass={m},mu={u},der={d}" for m, u, d in itertools.product("KU", repeat=3)]
_CALLS = ([("SetMass", o) for o in ("None", "Extensive", "Intensive")]
          + [("SetMu", o) for o in ("Mass", "ForceMax", "SetMassToNone")]
          + [("SetForce", o) for o in ("Mass", "UpdateMu", "SetMuToNone", "SetMassToNone", "SetMassAndMuToNone")]
          + [("Expunge", ""), ("Load", "")])
KEYS = (["State"] + [f"{n}/{o}/{p}" for n, o in _CALLS for p in _PAT + ["comp"]])
NAMES = [f"{i}@{k}" for i in BASE for k in KEYS] + ["NoPanic@any"]


def nontrivial(d):
    # a call that has something to reconcile: a mass / mu / force setter with a value, or a file with at least two of the redundant fields
    if d["mode"].startswith("load"):
        st = d["st"] if d["mode"] == "loadcomp" else d["st"]["units"][0]
        return sum(1 for k in ("mass", "spec", "mu") if st.get(k, -1) >= 0) >= 1
    return any(o[0] in ("SetMass", "SetMu", "SetForce") and o[1] >= 0 for o in d["ops"])


def _cls(inv):
    return inv.split("@", 1)[1] if "@" in inv else ""


# No known findings are open: F-C20-1, -3, -4, -5 were repaired in /repo (known/findings-mass.json, status "fixed",
# suppresses nothing); any relation x input class that fails is a VIOLATION.
SIGS = {}


# ---- bin/selftest: one recorded field corrupted -> the trace spec must name the invariant (with the input class
# of that call, as logged in `key`) at exactly that line
def _corrupt(ev, pred, change, inv):
    for i, e in enumerate(ev):
        if e.get("ev") == "Call" and e.get("exact") and pred(e):
            change(e)
            return ev, i, [f"{inv}@{e['key']}"]
    return None


def _loco(ok=True, two=False):
    return lambda e: e["ok"] == ok and "units" in e["st"] and (not two or len(e["st"]["units"]) == 2) and e["obs"]["cmass"] >= 0 \
        and all(x >= 0 for x in e["obs"]["force"])


def _comp(opt):
    return lambda e: e["ok"] and "units" not in e["st"] and e["op"][0] == "SetMass" and e["op"][2] == opt and e["op"][1] >= 0 \
        and e["st"]["spec"] >= 0


def _other(e):
    return 1 if e["op"][3] == 2 else 2


CORRUPT = {
    "rating_not_rescaled": lambda ev: _corrupt(ev, _comp("Extensive"), lambda e: e["st"].update(ext=e["st"]["ext"] * 2), "ComponentConsistent"),
    "component_mass_getter": lambda ev: _corrupt(ev, _comp("Intensive"), lambda e: e["obs"].update(mass=e["obs"]["mass"] + 64), "ComponentConsistent"),
    "intensive_touches_rating": lambda ev: _corrupt(ev, _comp("Intensive"),
                                                    lambda e: e["st"].update(ext=e["st"]["ext"] * 2, spec=e["st"]["spec"] * 2), "OptionSemantics"),
    "loco_mass_getter_errs": lambda ev: _corrupt(ev, _loco(), lambda e: e["obs"]["mass"].__setitem__(e["op"][3] - 1, -2), "LocoConsistent"),
    "force_not_mu_mass_g": lambda ev: _corrupt(ev, lambda e: _loco()(e) and e["st"]["units"][e["op"][3] - 1]["mu"] >= 0 and e["st"]["units"][e["op"][3] - 1]["mass"] >= 0,
                                               lambda e: (e["st"]["units"][e["op"][3] - 1].update(force=e["st"]["units"][e["op"][3] - 1]["force"] + 64),
                                                          e["obs"]["force"].__setitem__(e["op"][3] - 1, e["obs"]["force"][e["op"][3] - 1] + 64)), "Traction"),
    "consist_mass_skips_unit": lambda ev: _corrupt(ev, _loco(), lambda e: e["obs"].update(cmass=e["obs"]["cmass"] + 64), "ConsistMass"),
    "consist_force_skips_unit": lambda ev: _corrupt(ev, _loco(), lambda e: e["obs"].update(cforce=e["obs"]["cforce"] + 64), "ConsistForce"),
    "train_forgets_consist": lambda ev: _corrupt(ev, lambda e: _loco()(e) and e["obs"]["tstatic"] >= 0,
                                                 lambda e: e["obs"].update(tstatic=e["obs"]["tstatic"] - e["obs"]["cmass"]), "TrainStatic"),
    "rejected_call_changed_mu": lambda ev: _corrupt(ev, lambda e: not e["ok"] and "units" in e["st"],
                                                    lambda e: (e["st"]["units"][e["op"][3] - 1].update(mu=48), e["obs"]["mu"].__setitem__(e["op"][3] - 1, 48)), "Atomic"),
    "call_touches_other_unit": lambda ev: _corrupt(ev, _loco(two=True),
                                                   lambda e: e["st"]["units"][_other(e) - 1].update(ball=64), "Frame"),
}

RULE = ("cases = every maximal setter sequence reached by TLC in the bounded MassLedger configs (components: set_mass x "
        "{None,Extensive,Intensive} x {None,1,2,4 kg, derived mass x (1 +- 2^-12)}, expunge, from every known/unknown pattern of "
        "(mass, specific, rating); "
        "conventional / battery-electric / hybrid locomotives in 1-2 unit consists under a train: set_mass / set_mu x 3 options / set_force_max x 5 options / expunge "
        "from every known/unknown pattern of (mass, mu, derived mass); every file with consistent / inconsistent redundant "
        "data) + seeded longer random walks; component cases run on FuelConverter, Generator and ReversibleEnergyStorage, "
        "files through from_json and from_yaml; distinct = distinct case descriptors (sha256); non-trivial = at least one "
        "setter call with a value / a file with a redundant field")

ASSUME = ["dyadic lattice (multiples of 1/64): every f64 operation of the setters is exact, relations are checked with tolerance 0; "
          "records holding an off-lattice value (only possible in the seeded long walks) are counted, not judged",
          "private fields are read and initial objects built through serde (no init()), getters through the public API",
          "after a rejected call, or an accepted call after which a getter of the addressed unit errs, the harness continues "
          "from a clone of the pre-call object (one anomaly = one record; neither changes anything on the current tree)",
          "Traction is stated on the locomotive's own mass parameter: after an explicit ...ToNone option a mass derived from "
          "components does not bind force_max",
          "an off-grid value (the specific power / energy an Intensive side effect computes for a near-equal mass) is logged as the "
          "sentinel -3; component relations are stated on the getters as well, so such records are judged too",
          "DummyLoco units and RailVehicle / TrainState setters (all unconditional errors) are not driven"]


def _vac(r):
    s = r["stats"]
    if not r["models"]:          # --replay of a single case: nothing to balance
        return None if s.get("harness", 0) == 0 else f"{s['harness']} harness errors"
    if s.get("calls", 0) == 0:
        return "no setter call was recorded"
    if s.get("accepted", 0) == 0 or s.get("rejected", 0) == 0:
        return "accepted and rejected calls must both occur"
    if s.get("loads", 0) == 0 or s.get("loads_ok", 0) in (0, s.get("loads")):
        return "accepted and refused files must both occur"
    if s.get("trains", 0) == 0:
        return "no train was ever built around the consist"
    if s.get("harness", 0):
        return f"{s['harness']} harness errors (restore mismatch / exec error)"
    if s.get("offlattice", 0) * 4 > s.get("calls", 1):
        return "more than a quarter of the records left the 1/64 lattice"
    return None


GROUP = dict(
    name="mass", bin="avh_mass",
    model_spec="MCMassLedger.tla", trace_spec="MassLedgerTrace.tla", trace_cfg="MassLedgerTrace.cfg",
    models={
        "quick": [dict(cfg="MCMassLedger_loads.cfg", emit=True, workers=4, timeout=120, may_be_zero=("Call",)),
                  dict(cfg="MCMassLedger_near.cfg", emit=True, workers=4, timeout=120, may_be_zero=("Load",)),   # near-equal updates, every one replayed
                  dict(cfg="MCMassLedger_quickC.cfg", may_be_zero=("Load",), emit=True, max_emit=3000, workers=8, timeout=120),
                  dict(cfg="MCMassLedger_quickL1.cfg", emit=True, max_emit=6000, workers=8, timeout=180, coverage=False),
                  dict(cfg="MCMassLedger_quickL2.cfg", may_be_zero=("Load",), emit=True, max_emit=3000, workers=8, timeout=180)],
        "thorough": [dict(cfg="MCMassLedger_loads.cfg", emit=True, workers=4, timeout=120, may_be_zero=("Call",)),
                  dict(cfg="MCMassLedger_near.cfg", emit=True, workers=4, timeout=120, may_be_zero=("Load",)),   # near-equal updates, every one replayed
                     dict(cfg="MCMassLedger_thoroughC.cfg", may_be_zero=("Load",), emit=True, max_emit=15000, workers=8, timeout=900),
                     dict(cfg="MCMassLedger_thoroughL1.cfg", emit=True, max_emit=40000, workers=8, timeout=1800, may_be_zero=("Load",)),
                     dict(cfg="MCMassLedger_thoroughL2.cfg", may_be_zero=("Load",), emit=True, max_emit=15000, workers=8, timeout=1800),
                     dict(cfg="MCMassLedger_thoroughL4.cfg", emit=False, workers=8, timeout=1800, may_be_zero=("Load",))],
    },
    gen_n={"quick": 1000, "thorough": 10000},
    per_case_ms=20000,
    nontrivial=nontrivial,
    rule=RULE,
    props={
        "C20": dict(invariants=NAMES, assumptions=ASSUME, exhaustive=False,
                    coverage_extra=lambda res: dict(
                        invariants_decided_by_tlc=BASE,
                        failures_by_relation_and_input_class=(res.get("tags", {}).get("FAILCOUNTS") or [{}])[0],
                        invariant_naming="TLC reports <invariant>@<setter>/<option>/<known-ness pattern of the addressed object "
                                         "before the call> (or @State, @Load//<pattern>); known findings are filed under those names")),
    },
    sigs=SIGS,
    # the code as it was before the repairs: TLC re-finds F-C20-1/-3 (Atomic), F-C20-4 (LocoConsistent), F-C20-5 (Traction)
    fault_models=[dict(cfg="MCMassLedger_ascoded.cfg", expect=["Atomic"]),
                  dict(cfg="MCMassLedger_ascoded_expunge.cfg", expect=["LocoConsistent"]),
                  dict(cfg="MCMassLedger_ascoded_load.cfg", expect=["Traction"])],
    corrupt=CORRUPT, selftest_cases=60,
    vacuity=_vac,
    harness_timeout={"quick": 120, "thorough": 1500},
    trace_timeout={"quick": 120, "thorough": 1500},
)

ENGINE = dict(name="MassLedger", path="specs/MassLedger.tla", serves_properties=["C20"],
              kind_free_text="TLA+ spec (Level A: ComponentConsistent / LocoConsistent / Traction / ConsistMass / ConsistForce / "
                             "TrainStatic / Atomic / OptionSemantics / Frame over serialised fields + getter answers; Level B: "
                             "transcription of every mass / mu / force_max setter x side-effect option, expunge, file load), TLC "
                             "exhaustive on a dyadic lattice, every maximal setter sequence replayed on real components, "
                             "locomotives-in-a-consist and the train built around them, every recorded state validated by TLC "
                             "(MassLedgerTrace.tla)")
_NOTE = ("Trusted: TLC, serde's view of the private fields, the harness' Q-encoding (x64, force / g). Bounded: sequences of <= 3 calls "
         "(4 in the thorough model-only config), masses 1/2/4 kg (and 64 kg x (1 +- 2^-12) for the near-equal updates), specific "
         "1/2,1,2, mu 1/4,1/2, force/g 1/2,1,2,4, conventional, battery-electric and hybrid units, 1-2 units, three car mixes; seeded random walks of 5-9 calls beyond. Four genuine locomotive-level "
         "defects found by this check (F-C20-1, -3, -4, -5: assign-then-fail setters, expunge keeping baseline/ballast, unchecked "
         "force_max on load) were repaired in /repo; their inputs stay as regression cases and the pre-repair code is the fault "
         "model of bin/selftest.")
_TECH = "TLA+ spec + TLC model checking + spec->impl replay + TLC trace validation"
MANIFEST = {
    "C20": dict(engine="MassLedger", design_ref="3 (C20)", technique=_TECH,
                text="TLC checks that Level B (variant `repaired`: the setters as they are now) implies the "
                     "consistency, atomicity and option-semantics invariants on every reachable state of the lattice model (variant "
                     "`ascoded`, the pre-repair code, breaks Atomic / LocoConsistent / Traction), emits every maximal setter sequence "
                     "and every redundant-data file, and re-evaluates the same invariants on the fields and getter answers the "
                     "real FuelConverter / Generator / ReversibleEnergyStorage / Locomotive / Consist / TrainSimBuilder produced "
                     "after every call.",
                note=_NOTE),
}
