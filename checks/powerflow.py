"""PowerFlow group: C01 (energy ledger closes), C08 (second law; engine off burns nothing),
C09 (accepted steps respect ratings, transient limits, ramp rate, SOC window) at single-locomotive level
(conventional, battery-electric and hybrid units).  One pipeline serves the three properties: TLC model-checks
PowerFlow.tla (Level B => Level A) and emits every behaviour, avh_power replays each into a real Locomotive
call by call and again through LocomotiveSimulation::walk, PowerFlowTrace.tla evaluates every Level-A
conjunct by name on every recorded state."""
import time

LEDGER = ["L1", "L2", "L3", "L4", "L5", "L6", "L7", "L8", "L9", "L10"]
C01_INV = LEDGER + [x + "s" for x in LEDGER] + ["Integ", "AuxCurtailed", "HybAuxRoll", "HybGssPanic", "NoNaN", "InRange",
                                                 "NoPanic", "HarnessOk"]
C08_INV = ["LossNonNeg", "EtaRange", "OrderFc", "OrderGen", "OrderEdrv", "OrderRes", "Monotone", "DynBrakeSign", "EngineOff",
           "HybEngineOff"]
BH = ["FcRating", "FcTransient", "GenRating", "EdrvRating", "ResRating", "ResDisch", "ResCharge", "LocoPub", "SocWindow",
      "Ramp", "PublishedSane"]
C09_INV = ["FcRating", "FcTransient", "GenRating", "EdrvRating", "ResRating", "ResDisch", "ResCharge", "LocoPub",
           "Ramp", "SocWindow", "PublishedSane", "PublishOk"]


def nontrivial(d):
    # at least one step that demands traction or braking
    return any(s["cls"] not in ("zero", "f0") for s in d["steps"])


def sig_aux_curtailed(desc, events, inv):
    """F-C01-1.  PowerFlowTrace reports the name AuxCurtailed only for a step inside PowerFlow!CurtailClass
    (battery-electric unit, traction <= 0, battery so low on its derating ramp that
    res.pwr_prop_out_max - elec_prop_in < pwr_aux) on which loco.pwr_aux != res.pwr_aux; the same relation
    outside that class is reported as L10s / L10 and is not covered by this signature."""
    if inv != "AuxCurtailed":
        return False
    cfg = desc.get("cfg")
    if cfg is None:          # more failing cases than the pipeline keeps details for: the class was decided by TLC
        return True
    return cfg.get("kind") == "bel"


def _sig_hyb(name):
    def sig(desc, events, inv):
        if inv != name:
            return False
        cfg = desc.get("cfg")
        return True if cfg is None else cfg.get("kind") == "hyb"     # cfg None: details truncated, class decided by TLC
    return sig


# F-C01-2 / F-C08-2 / F-C01-3: PowerFlowTrace reports these names only for hybrid units (HybGssPanic only for a panic of
# a hybrid in golden-section mode); the same relations on every other unit are L10s / EngineOff / NoPanic.
sig_hyb_aux = _sig_hyb("HybAuxRoll")
sig_hyb_engine_off = _sig_hyb("HybEngineOff")
sig_hyb_gss_panic = _sig_hyb("HybGssPanic")


RULE = ("cases = every behaviour (unit constants, initial SOC, sequence of <engine on/off, dt, demand class relative to the "
        "just-published limits>) reached by TLC in the bounded PowerFlow configs (sampled to max_emit per config in the "
        "quick tier) + seeded generator runs (flat and non-flat dyadic 1-D maps, 3-D battery maps, variable dt, limit "
        "riding, 8-160 steps; units where each component in turn is the binding one; units with limit checking off driven "
        "above their published limits; real-sized conventional units pulling a train through SetSpeedTrainSim over speed "
        "traces with non-uniform time steps; hybrids with fixed split and with the "
        "golden-section split) + the materialised inputs of the known findings; each is executed call by call and through "
        "LocomotiveSimulation::walk; distinct = distinct case descriptors (sha256); non-trivial = at least one step "
        "with non-zero demand")

ASSUME_COMMON = [
    "both modes of Locomotive.assert_limits: with limit checking off (about a fifth of the cases, demands up to twice the "
    "published limit and up to the drivetrain rating) the code skips the engine's rating / transient-limit checks only "
    "(fuel_converter.rs:192); C01 and C08 are judged on every accepted step of either mode, the C09 clauses stated for "
    "steps 'accepted with limit checking on' (ratings, transient limit, ramp, published locomotive limit, SOC window) only "
    "on units with limit checking on, PublishedSane in both",
    "single locomotive (ConventionalLoco, BatteryElectricLoco, HybridLoco) driven exactly like LocomotiveSimulation::solve_step: "
    "set_pwr_aux, set_cur_pwr_max_out, solve_energy_consumption, step; after an Err the caller continues from a clone "
    "taken before the call (the half-updated components of a rejected step are not part of any invariant)",
    "train level: the unit alone in a consist inside a SetSpeedTrainSim (flat two-link network, 4-8 cars), stepped over a "
    "speed trace whose time steps vary (1/4 .. 2 s); after each step the unit's component states (limits published for "
    "that step, powers solved in it) are recorded like one history entry, the step size taken from the trace's time column",
    "toy-scale dyadic parameters (ratings 16 W .. 4 kW): the powertrain code is scale-free apart from the absolute "
    "1e-3 W branch of almost_le, which the spec models; hybrids are real-sized (64-256 kW) because HybridLoco loads its "
    "generator with a hard-coded 50 kW",
    "HybridLoco: Level B transcribes the fixed split (fuel_res_ratio = None, fuel_res_split in {0, 1/2, 1}); the "
    "golden-section mode is exercised by generated cases and judged by Level A only",
    "tolerance 0 on records flagged exact (every logged value is an integer at its power-of-two scale); otherwise "
    "n/2 units for an additive relation of n rounded terms",
]
ASSUME = {
    "C01": ASSUME_COMMON + [
        "consist roll-ups (LC: consist totals = sum over units) are evaluated by the ConsistSplit pipeline as Roll* and "
        "decided here for C01 (quick tier: a reduced run of that pipeline)",
        "L10 (loco.energy_aux = component aux energy) is reported as AuxCurtailed inside the input class of F-C01-1 and "
        "as L10s/L10 everywhere else; for hybrid units as HybAuxRoll (F-C01-2), a panic of a hybrid in golden-section "
        "mode as HybGssPanic (F-C01-3)"],
    "C08": ASSUME_COMMON + [
        "efficiency map values lie in (0, 1] (flat 1/k, k in {1,2,4}; generated maps use values in [1/4, 1])",
        "eta is logged rounded up at 2^-16: an excess above 1 of any size is visible, a value in (0, 2^-16] shows as 1",
        "EngineOff is reported as HybEngineOff for hybrid units (F-C08-2)"],
    "C09": ASSUME_COMMON + [
        "the clauses on accepted steps, Ramp and SocWindow: assert_limits = true (the property's own condition); "
        "pwr_out_max_init <= pwr_out_max (floor <= rating)",
        "SocWindow: initial SOC inside [min_soc, max_soc] and every accepted step so far had "
        "dt <= DtSafe = min(eta_r * E*(lo_ramp-min)/(P_max*1.001), E*(max-hi_ramp)/P_max); beyond DtSafe the linear "
        "derating does not protect the window (shown by TLC and by replay), those steps are recorded but not judged",
        "LocoPub (wheel power within the published locomotive limit + eps worth of the source check) is stated for "
        "flat efficiency maps and positive traction only; for hybrids additionally pwr_aux <= 50 kW (their published limit "
        "subtracts pwr_aux twice while the solve loads the generator with the hard-coded 50 kW once)",
        "braking beyond the drivetrain rating is accepted by a stand-alone locomotive (only a consist guards "
        "pwr_dyn_brake_max): EdrvRating constrains pwr_mech_prop_out, the braking clause is C10's",
        "eps = TOL = 1e-3 (fuel_converter.rs:5, reversible_energy_storage.rs:6) via utils::almost_le (utils/mod.rs:169)"],
}


# ---- vacuity.  Two kinds of floors:
#  * group-wide floors on what the drivers ISSUED (cases per unit kind, requests per class group) and on the machinery
#    having recorded anything at all - the code under test cannot move these, so a mutant never turns a sibling
#    property's "held" into a tool error;
#  * per-property floors on outcome counts (boundary hits for C09, out-of-grid lookups for C08), applied only when THAT
#    property is being decided (the framework evaluates vacuity only when the property has no violation).
OOG = ["f_lo", "f_hi", "g_lo", "g_hi", "e_lo", "e_hi", "rt_lo", "rt_hi", "rs_lo", "rs_hi", "rc_lo", "rc_hi"]
BH_MIN = 10      # C09: every conjunct evaluated at least this often within Band of its own limit (current tree: >= 600;
                 # 22 for GenRating under the seeded mutant that unclamps the generator's published limit)
OOG_MIN = 10     # C08: every map / side looked up at least this often outside its grid on an ACCEPTED step (current tree:
                 # >= 100; 28 for the generator's upper side under that same mutant)
IO_MIN = 50      # group-wide: requests ISSUED so as to land outside each map / side (design facts of the generated units)
IN_MIN = dict(in_conv=100, in_bel=100, in_hyb=100, in_gss=10, in_mapped=40, in_req=5000, in_req_limit=1500,
              in_req_regen=500, in_req_brake=300, in_req_zero=300, in_eng_off=1000,
              # limit checking off (assert_limits = false): cases, cases with an engine, requests, requests above the published limit
              in_train=10,     # train-level cases (SetSpeedTrainSim over a speed trace with non-uniform time steps)
              in_nolim=300, in_nolim_fc=200, in_req_nolim=1000, in_req_nolim_over=400)


def _vacuity(r):
    s = r["stats"]
    low = {k: s.get(k, 0) for k, m in IN_MIN.items() if s.get(k, 0) < m}
    low.update({"io_" + k: s.get("io_" + k, 0) for k in OOG if s.get("io_" + k, 0) < IO_MIN})
    if low:
        return f"the drivers issued too little: {low} (floors {IN_MIN}, out-of-grid requests {IO_MIN} each)"
    dead = [k for k in ("accepted", "hist", "exact", "b_checked") if s.get(k, 0) == 0]
    if dead:
        return f"nothing recorded for {dead}"
    if s.get("hist", 0) < s.get("accepted", 0) // 2:
        return f"walk produced far fewer history records ({s.get('hist')}) than accepted steps ({s.get('accepted')})"
    return None


def _vacuity_pid(pid, r):
    s = r["stats"]
    if pid == "C09":
        thin = {k: s.get("bh_" + k, 0) for k in BH if s.get("bh_" + k, 0) < BH_MIN}
        if thin:
            return f"fewer than {BH_MIN} boundary hits for {thin}"
    if pid == "C08":
        thin = {k: s.get("oog_" + k, 0) for k in OOG if s.get("oog_" + k, 0) < OOG_MIN}
        if thin:
            return f"fewer than {OOG_MIN} out-of-grid efficiency lookups for {thin}"
    return None


def _cov_extra(res):
    s = res["stats"]
    return dict(conformance_checked=s.get("b_checked", 0),
                drift=dict(published=s.get("drift_pub", 0), accept_reject=s.get("drift_ok", 0), values=s.get("drift_val", 0),
                           walk_vs_call_by_call=s.get("walk_diff", 0), walk_failed=s.get("walk_fail", 0)),
                drift_samples=(res.get("tags", {}).get("DRIFT") or [[]])[0][:4],
                accepted_steps=s.get("accepted", 0) + s.get("hist", 0), rejected_steps=s.get("rejected", 0),
                exact_records=s.get("exact", 0), inexact_records=s.get("inexact", 0),
                known_class_steps_F_C01_1=s.get("curtailed", 0),
                hybrid_steps=dict(accepted=s.get("hyb_acc", 0), engine_off=s.get("hyb_off", 0), golden_section=s.get("hyb_gss", 0)),
                boundary_hits={k: s.get("bh_" + k, 0) for k in BH},
                out_of_grid_hits={k: s.get("oog_" + k, 0) for k in OOG},
                out_of_grid_issued={k: s.get("io_" + k, 0) for k in OOG},
                issued={k: s.get(k, 0) for k in IN_MIN},
                over_limit_requests_rejected=s.get("rej_over", 0),
                train_level=dict(cases=s.get("in_train", 0), steps=s.get("train_steps", 0),
                                 steps_shorter_than_the_one_before=s.get("train_short_after_long", 0),
                                 runs_stopped_early=s.get("train_fail", 0)),
                limit_checking_off=dict(cases=s.get("in_nolim", 0), requests=s.get("in_req_nolim", 0),
                                        requests_above_published_limit=s.get("in_req_nolim_over", 0),
                                        accepted_steps=s.get("nolim_acc", 0),
                                        accepted_with_engine_above_transient_limit=s.get("nolim_over_tr", 0),
                                        accepted_with_engine_above_rating=s.get("nolim_over_rating", 0)), **_ROLL)


# ---- bin/selftest: one recorded field corrupted -> the trace spec must name the invariant at exactly that line ----
def _kinds(ev):
    return {e["case"]: e["desc"]["cfg"] for e in ev if e.get("ev") == "begin"}


def _corrupt(kind, pred, change, expect, what="Solve", limits=True):
    """first call-by-call record `what` of a unit of `kind` (None = any) that is the first accepted step of its case
    (so that no tolerance applies) and satisfies pred(event, cfg, previous Pub event)"""
    def fn(ev):
        cfgs = _kinds(ev)
        first_acc = {}
        for i, e in enumerate(ev):
            if e.get("ev") == "Solve" and e.get("acc") and not e.get("walk"):
                first_acc.setdefault(e["case"], i)
        for i, e in enumerate(ev):
            if e.get("ev") != what or e.get("walk"):
                continue
            cfg = cfgs[e["case"]]
            if kind and cfg["kind"] not in kind:
                continue
            if bool(cfg.get("assert", True)) != limits:      # limits=False: a unit running without limit checking
                continue
            if what == "Solve":
                if not e.get("acc") or first_acc.get(e["case"]) != i or not e["exact"] or not ev[i - 1].get("exact"):
                    continue
                pub = ev[i - 1]
            else:
                if not e.get("exact") or first_acc.get(e["case"], 1 << 30) < i:
                    continue
                pub = e
            if not pred(e, cfg, pub):
                continue
            change(e, cfg, pub)
            return ev, i, expect
        return None
    return fn


def _bump(rec, key, d=64):
    return lambda e, c, pb: e[rec].__setitem__(key, e[rec][key] + d)


_any = lambda e, c, pb: True
_trac = lambda e, c, pb: e["req"] > 0
FC, RS = ("conv", "hyb"), ("bel", "hyb")
CORRUPT = {
    "shaft_vs_generator_input_limits_off": _corrupt(("conv",), lambda e, c, pb: e["p"]["brake"] > pb["pub"]["fc"],
                                                    _bump("p", "brake", -64), ["L2s", "L1s"], limits=False),
    "fuel_energy_limits_off": _corrupt(FC, _any, _bump("e", "fuel"), ["L1", "L9"], limits=False),
    "negative_loss_limits_off": _corrupt(FC, _any, lambda e, c, pb: e["p"].__setitem__("lossf", -64), ["LossNonNeg"], limits=False),
    "fuel_with_engine_off_limits_off": _corrupt(("conv",), lambda e, c, pb: not pb["eng"], lambda e, c, pb: e["p"].__setitem__("fuel", 64),
                                                ["EngineOff"], limits=False),
    "fuel_power": _corrupt(FC, _any, _bump("p", "fuel"), ["L1s"]),
    "shaft_vs_generator_input": _corrupt(FC, _any, _bump("p", "mech"), ["L2s"]),
    "generator_loss_energy": _corrupt(FC, _any, _bump("e", "lossg"), ["L3"]),
    "hybrid_source_handoff": _corrupt(("hyb",), _trac, _bump("p", "gprop"), ["L4s"]),
    "drivetrain_input_in_regen": _corrupt(("bel",), lambda e, c, pb: e["p"]["oute"] < 0, _bump("p", "ine"), ["L5s"]),
    "wheel_power": _corrupt(None, _any, _bump("p", "out"), ["L6s"]),
    "battery_electrical": _corrupt(RS, _any, _bump("p", "elec"), ["L7s"]),
    "soc": _corrupt(RS, _any, lambda e, c, pb: e.__setitem__("soc", e["soc"] + 64), ["L8", "L8s"]),
    "headline_energy": _corrupt(FC, _any, _bump("e", "lossf"), ["L9"]),
    "aux_rollup": _corrupt(("conv",), lambda e, c, pb: pb["eng"], _bump("p", "aux"), ["L10s"]),
    "energy_not_power_times_dt": _corrupt(None, _any, _bump("e", "dyn"), ["Integ"]),
    "negative_loss": _corrupt(FC, _any, lambda e, c, pb: e["p"].__setitem__("lossg", -64), ["LossNonNeg"]),
    "eta_above_one": _corrupt(None, _any, lambda e, c, pb: e["eta"].__setitem__("e", 65537), ["EtaRange"]),
    "fuel_below_shaft": _corrupt(FC, _any, lambda e, c, pb: e["p"].__setitem__("fuel", e["p"]["brake"] - 64), ["OrderFc"]),
    "generator_out_above_in": _corrupt(FC, _any, lambda e, c, pb: e["p"].__setitem__("mech", e["p"]["gprop"] + e["p"]["gaux"] - 64), ["OrderGen"]),
    "drivetrain_out_above_in": _corrupt(None, _trac, lambda e, c, pb: e["p"].__setitem__("oute", e["p"]["ine"] + 64), ["OrderEdrv"]),
    "battery_out_above_chem": _corrupt(RS, lambda e, c, pb: e["p"]["elec"] > 0, lambda e, c, pb: e["p"].__setitem__("chem", e["p"]["elec"] - 64), ["OrderRes"]),
    "energy_decreases": _corrupt(None, _any, lambda e, c, pb: e["e"].__setitem__("losse", -64), ["Monotone"]),
    "dyn_brake_in_traction": _corrupt(None, _trac, lambda e, c, pb: e["p"].__setitem__("dyn", 64), ["DynBrakeSign"]),
    "fuel_with_engine_off": _corrupt(("conv",), lambda e, c, pb: not pb["eng"], lambda e, c, pb: e["p"].__setitem__("fuel", 64), ["EngineOff"]),
    "shaft_above_rating": _corrupt(FC, _any, lambda e, c, pb: e["p"].__setitem__("brake", 2 * c["rfc"]), ["FcRating"]),
    "shaft_above_transient": _corrupt(FC, lambda e, c, pb: pb["pub"]["fc"] < c["rfc"], lambda e, c, pb: e["p"].__setitem__("brake", pb["pub"]["fc"] + pb["pub"]["fc"] // 100), ["FcTransient"]),
    "generator_above_rating": _corrupt(FC, _any, lambda e, c, pb: e["p"].__setitem__("gprop", c["rgen"] + 64), ["GenRating"]),
    "drivetrain_above_rating": _corrupt(None, _trac, lambda e, c, pb: e["p"].__setitem__("oute", c["redrv"] + 64), ["EdrvRating"]),
    "battery_above_rating": _corrupt(RS, lambda e, c, pb: e["p"]["elec"] > 0, lambda e, c, pb: e["p"].__setitem__("elec", 2 * c["rres"]), ["ResRating"]),
    "battery_above_discharge_limit": _corrupt(RS, lambda e, c, pb: e["p"]["elec"] > 0 and pb["pub"]["disch"] < c["rres"], lambda e, c, pb: e["p"].__setitem__("elec", pb["pub"]["disch"] + pb["pub"]["disch"] // 100 + 64), ["ResDisch"]),
    "battery_above_charge_limit": _corrupt(RS, lambda e, c, pb: e["p"]["elec"] < 0, lambda e, c, pb: e["p"].__setitem__("elec", -2 * c["rres"]), ["ResCharge"]),
    "wheel_above_published": _corrupt(None, lambda e, c, pb: e["req"] > 0 and c["flat"], lambda e, c, pb: e["p"].__setitem__("out", pb["pub"]["loco"] + pb["pub"]["loco"] // 50 + 64), ["LocoPub"]),
    "soc_below_window": _corrupt(RS, lambda e, c, pb: pb["dtq"] * c["kr"] * c["rres"] <= (c["slo"] - c["smin"]) // 1001 * 1000, lambda e, c, pb: e.__setitem__("soc", c["smin"] // 2), ["SocWindow"]),
    "transient_limit_above_ramp": _corrupt(FC, lambda e, c, pb: e["pub"]["fc"] < c["rfc"], lambda e, c, pb: e["pub"].__setitem__("fc", e["pub"]["fc"] + 64), ["Ramp"], what="Pub"),
    "published_discharge_negative": _corrupt(RS, _any, lambda e, c, pb: e["pub"].__setitem__("disch", -64), ["PublishedSane"], what="Pub"),
    "published_wheel_above_rating": _corrupt(None, _any, lambda e, c, pb: e["pub"].__setitem__("loco", c["redrv"] + 64), ["PublishedSane"], what="Pub"),
}


GROUP = dict(
    name="powerflow", bin="avh_power",
    model_spec="MCPowerFlow.tla", trace_spec="PowerFlowTrace.tla", trace_cfg="PowerFlowTrace.cfg",
    models={
        # depth 3, emitted and sampled: base units + one unit per binding component (C, B), hybrids (H)
        "quick": [dict(cfg="MCPowerFlow_quickC.cfg", emit=True, max_emit=1800),
                  dict(cfg="MCPowerFlow_quickB.cfg", emit=True, max_emit=1500),
                  dict(cfg="MCPowerFlow_quickH.cfg", emit=True, max_emit=1500),
                  dict(cfg="MCPowerFlow_quickN.cfg", emit=True, max_emit=1200),       # limit checking off
                  dict(cfg="MCPowerFlow_minsoc.cfg", emit=True, may_be_zero=("Reject",))],
        # depth 3 emitted (sampled), depth 4 emitted (sampled), depth 3 over every efficiency combination / binding
        # variant and depth 5 on one unit per kind with the history hidden by VIEW (exhaustive, not emitted)
        "thorough": [dict(cfg="MCPowerFlow_quickC.cfg", emit=True, max_emit=8000),
                     dict(cfg="MCPowerFlow_quickB.cfg", emit=True, max_emit=8000),
                     dict(cfg="MCPowerFlow_quickH.cfg", emit=True, max_emit=8000),
                     dict(cfg="MCPowerFlow_quickN.cfg", emit=True, max_emit=8000),
                     dict(cfg="MCPowerFlow_minsoc.cfg", emit=True, may_be_zero=("Reject",)),
                     dict(cfg="MCPowerFlow_thorC4.cfg", emit=True, max_emit=6000, workers=12, timeout=1200),
                     dict(cfg="MCPowerFlow_thorB4.cfg", emit=True, max_emit=6000, workers=12, timeout=1200),
                     dict(cfg="MCPowerFlow_thorH4.cfg", emit=True, max_emit=6000, workers=12, timeout=1200),
                     dict(cfg="MCPowerFlow_thorC3.cfg", emit=False, workers=12, timeout=1800),
                     dict(cfg="MCPowerFlow_thorB3.cfg", emit=False, workers=12, timeout=1800),
                     dict(cfg="MCPowerFlow_thorH3.cfg", emit=False, workers=12, timeout=1800),
                     dict(cfg="MCPowerFlow_thorC5.cfg", emit=False, workers=12, timeout=1800),
                     dict(cfg="MCPowerFlow_thorB5.cfg", emit=False, workers=12, timeout=1800)],
    },
    gen_n={"quick": 240, "thorough": 900},
    per_case_ms=20000,
    nontrivial=nontrivial,
    rule=RULE,
    props={
        "C01": dict(invariants=C01_INV, assumptions=ASSUME["C01"], coverage_extra=_cov_extra),
        "C08": dict(invariants=C08_INV, assumptions=ASSUME["C08"], coverage_extra=_cov_extra),
        "C09": dict(invariants=C09_INV, assumptions=ASSUME["C09"], coverage_extra=_cov_extra),
    },
    sigs={"aux_curtailed": sig_aux_curtailed, "hyb_aux": sig_hyb_aux, "hyb_engine_off": sig_hyb_engine_off,
          "hyb_gss_panic": sig_hyb_gss_panic},
    # bin/selftest: Level B with one deliberate defect must break the named invariant ...
    fault_models=[dict(cfg="MCPowerFlow_auxroll.cfg", expect=["AuxCurtailed"]),           # F-C01-1 as the code has it
                  dict(cfg="MCPowerFlow_fault_hybaux.cfg", expect=["HybAuxRoll"]),        # F-C01-2 as the code has it
                  dict(cfg="MCPowerFlow_fault_hybengoff.cfg", expect=["HybEngineOff"]),   # F-C08-2 as the code has it
                  dict(cfg="MCPowerFlow_fault_idle.cfg", expect=["EngineOff"]),           # F-C08-1 reverted
                  dict(cfg="MCPowerFlow_fault_transient.cfg", expect=["FcTransient"]),
                  dict(cfg="MCPowerFlow_fault_genaux.cfg", expect=["GenRating"]),
                  dict(cfg="MCPowerFlow_fault_socsign.cfg", expect=["L8", "L8s"])],
    # ... and a recorded trace with one field corrupted must be rejected with the named invariant at that line
    corrupt=CORRUPT, selftest_cases=90,
    vacuity=_vacuity,
    harness_timeout={"quick": 300, "thorough": 1800},
    trace_timeout={"quick": 300, "thorough": 2400},
    trace_xmx="8g",
)


_ROLL = {}      # consist roll-up numbers of the current run, merged into C01's evidence


def _consist_rollup(tier, seed, t0, replay_desc=None):
    """Consist clause of C01 ("consist-level fuel, battery and wheel totals equal the sums over its locomotives"):
    ConsistSplitTrace.tla evaluates it as Roll* on every recorded consist step (checks/consist.py lists the names for
    the owner of C01).  Thorough tier: the consist group's own *quick* run (shared cache with `bin/check C10 --tier
    quick`; the consist group's thorough run alone takes longer than this group's whole budget).  Quick tier: a reduced
    variant of the same pipeline under its own cache name, to stay inside the quick budget."""
    import group
    try:
        import consist
    except Exception as e:          # the consist group is built separately
        print(f"NOTE property=C01 consist roll-up not evaluated (checks/consist.py unavailable: {e})")
        return 0
    names = list(getattr(consist, "extra_invariants_for_C01", []))
    if not names:
        return 0
    G2 = dict(consist.GROUP)
    if tier == "quick":
        G2["name"] = "consist-rollup"
        G2["models"] = {"quick": [dict(m, max_emit=min(m.get("max_emit") or 1500, 1500)) for m in consist.GROUP["models"]["quick"][:1]]}
        G2["gen_n"] = {"quick": 300}
        G2["vacuity"] = lambda r: None if r["stats"].get("accepted", 0) > 0 else "no accepted consist step recorded"
    G2["props"] = {"C01": dict(invariants=names, level="model_checking",
                               rule="consist steps recorded by the ConsistSplit pipeline (" + consist.GROUP.get("rule", "") + ")",
                               assumptions=["consist roll-up clause only; single-locomotive ledgers are PowerFlow's"])}
    res = group.run_group(G2, "quick", seed, only_cases=[replay_desc] if replay_desc else None)
    rc = group.decide(G2, "C01", res, tier, seed, t0)
    _ROLL.update(consist_cases=res["n_cases"], consist_trace_lines=res["trace_lines"],
                 consist_invariants=names, consist_group_run_reused=bool(res.get("cache_hit")),
                 consist_roll_failures=sum(1 for v in res["viols"] if v[2] in names))
    return rc


def run(pid, tier, seed, replay, t0):
    """Standard group pipeline + MODEL-DRIFT lines (Level-B mismatch with Level A intact: counted, never an alarm);
    C01 additionally decides the consist roll-up invariants recorded by the ConsistSplit pipeline."""
    import json
    import group
    rc2 = 0
    if replay:
        rp = json.load(open(replay))
        if str(rp.get("group", "")).startswith("consist"):
            return _consist_rollup(tier, seed, t0, replay_desc=rp["desc"]) if pid == "C01" else 2
        res = group.run_group(GROUP, tier, seed, only_cases=[rp["desc"]])
    else:
        if pid == "C01":
            rc2 = _consist_rollup(tier, seed, t0)
        res = group.run_group(GROUP, tier, seed)
    s = res["stats"]
    for k, what in (("drift_pub", "published limits differ from PowerFlow!PubOf"),
                    ("drift_ok", "accept/reject differs from PowerFlow!SolveOf"),
                    ("drift_val", "component powers / energies / SOC differ from PowerFlow!SolveOf"),
                    ("walk_diff", "LocomotiveSimulation::walk history differs from the call-by-call replay"),
                    ("walk_fail", "LocomotiveSimulation::walk stopped on steps the call-by-call replay accepted")):
        if s.get(k, 0):
            print(f"MODEL-DRIFT property={pid} {what}: {s[k]} of {s.get('b_checked', 0)} compared records "
                  f"(Level A intact unless a VIOLATION line follows)")
    if not replay and not res.get("vacuity_msg"):
        res["vacuity_msg"] = _vacuity_pid(pid, res)      # raised by decide() only if `pid` has no violation
    rc = group.decide(GROUP, pid, res, tier, seed, t0)
    rc = 1 if (rc or rc2) else 0
    print(f"{pid}: {'VIOLATED' if rc else 'held'} on {res['n_cases']} cases / {res['trace_lines']} trace lines "
          + (f"+ {_ROLL.get('consist_cases', 0)} consist cases / {_ROLL.get('consist_trace_lines', 0)} lines " if pid == "C01" and _ROLL else "")
          + f"({time.time()-t0:.0f}s)")
    return rc


ENGINE = dict(name="PowerFlow", path="specs/PowerFlow.tla", serves_properties=["C01", "C08", "C09"],
              kind_free_text="TLA+ spec (Level A: Ledger L1-L10 / SecondLaw / Monotone / EngineOff / WithinLimits / Ramp / "
                             "SocWindow / PublishedSane; Level B: integer-lattice transcription of set_pwr_aux, "
                             "set_cur_pwr_max_out, solve_energy_consumption, step for ConventionalLoco, "
                             "BatteryElectricLoco and HybridLoco (fixed split)), TLC exhaustive on bounded behaviours, every behaviour replayed into a "
                             "real Locomotive and a real LocomotiveSimulation::walk, recorded states validated by TLC "
                             "(PowerFlowTrace.tla)")
_NOTE = ("Trusted: TLC, the harness projection of the public state structs to integers (Q-encoding, scales powers of two), "
         "avh::build::loco. Bounded: exhaustive up to depth 3-5 on the toy lattice with flat efficiencies 1/k; non-flat maps, "
         "long runs, variable dt and the hybrid's golden-section split only through the seeded generator (tolerance n/2 units "
         "off the lattice). Single locomotive; consists are ConsistSplit's.")
_TECH = "TLA+ spec + TLC model checking + spec->impl replay + TLC trace validation"
MANIFEST = {
    "C01": dict(engine="PowerFlow", design_ref="3 (C01)", technique=_TECH,
                text="TLC checks the ledgers L1-L10 (cumulative, per step, and delta e = p*dt) on every reachable state of the "
                     "Level-B model and re-evaluates each by name on every state the real Locomotive recorded for every "
                     "emitted behaviour (call by call and through LocomotiveSimulation::walk) plus seeded generator runs. "
                     "Re-finds F-C01-1 (BEL aux curtailed at low SOC) in the model and on the code; hybrid units: ledger holds except "
                     "the aux roll-up (F-C01-2, hard-coded 50 kW) and a panic of the golden-section split (F-C01-3). Units run in "
                     "both modes of Locomotive.assert_limits: with limit checking off they are driven far above the published "
                     "limits (the engine above its transient limit and its rating) and the ledger is judged on those steps too.",
                note=_NOTE),
    "C08": dict(engine="PowerFlow", design_ref="3 (C08)", technique=_TECH,
                text="Same runs as C01; TLC evaluates LossNonNeg, EtaRange, the converter order relations, Monotone, "
                     "DynBrakeSign and EngineOff on every recorded accepted step (all engine on/off words of the bounded "
                     "depth, regeneration, map clamps). EngineOff holds after the repair of F-C08-1 and detects its reversal; a hybrid "
                     "commanded off keeps burning fuel (F-C08-2). Judged with limit checking on and off alike.",
                note=_NOTE),
    "C09": dict(engine="PowerFlow", design_ref="3 (C09)", technique=_TECH,
                text="Same runs as C01 with demand classes chosen adversarially after set_cur_pwr_max_out (0, 1/2 pub, pub-d, "
                     "pub, pub+d, pub+1.6 %, -regen_pub +- d, -dyn_max, -dyn_max-d); TLC evaluates the rating / transient / "
                     "ramp / SOC-window / published-limit predicates with the code's own eps = 1e-3; an accepted over-limit "
                     "request is a recorded state that fails WithinLimits. Unit families make each component in turn the binding one; "
                     "evidence.coverage.boundary_hits counts, per conjunct, the recorded states within 1/64 of that conjunct's limit. "
                     "Units with limit checking off are outside this property (only PublishedSane is judged on them). Train level: "
                     "the unit pulls a train through SetSpeedTrainSim over speed traces with non-uniform time steps and Ramp / "
                     "the step clauses are judged with the step size of the trace's time column.",
                note=_NOTE),
}
