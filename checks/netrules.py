"""NetworkRules group: C16 (network validation accepts exactly the consistent networks, never aborts; the legacy
file layout loads to the same network)."""


def _mutated(d):
    return bool(d.get("faults")) or d.get("kind") == "shipped_legacy"


# ---- bin/selftest: corruptions of a recorded trace (one field each), expected invariant at that line
def _first(ev, pred, start=0):
    for i in range(start, len(ev)):
        if pred(ev[i]):
            return i
    return None


def _flip(ev, frm, to, expect):
    i = _first(ev, lambda e: e.get("ev") == "Load" and e["outcome"] == frm)
    if i is None:
        return None
    ev[i]["outcome"] = to
    return ev, i, expect


def _legacy_field(ev):
    i = _first(ev, lambda e: e.get("ev") == "Legacy" and e["old"] == "accepted" and e["new"] == "accepted" and e["fields"])
    if i is None:
        return None
    ev[i]["fields"][sorted(ev[i]["fields"])[0]] = False
    return ev, i, ["LegacyEqual"]


def _legacy_verdict(ev):
    i = _first(ev, lambda e: e.get("ev") == "Legacy" and e["old"] == "rejected" and e["new"] == "rejected")
    if i is None:
        return None
    ev[i]["old"] = "accepted"
    return ev, i, ["LegacySameVerdict"]


RULE = ("cases = every description reached by TLC in the bounded NetworkRules configs (valid base network from the family "
        "plain / single / siding / junction, with and without lockouts) x (one fault: every rule broken at every link, "
        "out-of-range values n, n+1, 2^32-1 in every reference, NaN/+inf/-inf in every float field, benign variations), "
        "pairs of faults in the thorough tier, + seeded random corridors with 0..2 generic mutations + the shipped "
        "legacy/current Taconite pair; each rendered in 3 layouts and loaded through from_yaml / from_json / from_file; "
        "distinct = distinct descriptors (sha256); non-trivial = at least one fault / mutation")

ASSUME = ["Valid(net) is the documented rule set as listed in DESIGN section 3 (C16); speed limits are not required to lie "
          "inside the link, +inf is allowed where the rule bounds a value from one side only",
          "catenary sections are listed in track order (non-overlap is checked between every earlier and later section)",
          "both `speed_sets` and `speed_set` present on one link is outside the family (doc comment says override, the "
          "validator rejects)",
          "non-finite values are rendered in YAML only (JSON cannot carry them)",
          "2^32-1 is represented by the sentinel -1 on the TLA+ side"]

GROUP = dict(
    name="netrules", bin="avh_netrules",
    model_spec="MCNetworkRules.tla", trace_spec="NetworkRulesTrace.tla", trace_cfg="NetworkRulesTrace.cfg",
    models={
        "quick": [dict(cfg="MCNetworkRules_quick.cfg", emit=True, workers=8, timeout=300),
                  dict(cfg="MCNetworkRules_pairs_noemit.cfg", emit=False, workers=8, timeout=600)],
        "thorough": [dict(cfg="MCNetworkRules_thorough.cfg", emit=True, workers=8, timeout=900),
                     dict(cfg="MCNetworkRules_pairs.cfg", emit=True, max_emit=20000, workers=8, timeout=1800)],
    },
    gen_n={"quick": 300, "thorough": 6000},
    per_case_ms=60000,
    nontrivial=_mutated,
    rule=RULE,
    props={
        "C16": dict(invariants=["AcceptIffValid", "NoPanic", "LegacyEqual", "LegacySameVerdict"], assumptions=ASSUME),
    },
    sigs={},
    # bin/selftest: Level-B variants that must break the named invariant in TLC (the invariants are not vacuous)
    fault_models=[dict(cfg="MCNetworkRules_pinned_cat.cfg", expect=["Conforms"]),      # F-C16-1: inverted catenary test
                  dict(cfg="MCNetworkRules_pinned_panic.cfg", expect=["ImplNoPanic"]),  # F-C16-2: unchecked self[idx]
                  dict(cfg="MCNetworkRules_skip1.cfg", expect=["Conforms"])],           # F-C16-4: range check skipping entry 0
    selftest_cases=24,
    corrupt={
        "accepted_to_rejected": lambda ev: _flip(ev, "accepted", "rejected", ["AcceptIffValid"]),
        "rejected_to_accepted": lambda ev: _flip(ev, "rejected", "accepted", ["AcceptIffValid"]),
        "rejected_to_panic": lambda ev: _flip(ev, "rejected", "panic", ["NoPanic"]),
        "legacy_field_differs": _legacy_field,
        "legacy_verdict_differs": _legacy_verdict,
    },
    vacuity=lambda r: ("no load was recorded" if r["stats"].get("loads", 0) == 0 else
                       "no valid description was accepted" if r["stats"].get("accepted", 0) == 0 else
                       "no description was rejected" if r["stats"].get("rejected", 0) == 0 else
                       "the harness failed on some cases (temp files?)" if r["stats"].get("harness_err", 0) > 0 else
                       "no legacy/current pair loaded" if r["stats"].get("legacy_both", 0) == 0 else None),
    harness_timeout={"quick": 600, "thorough": 3600},
)

ENGINE = dict(name="NetworkRules", path="specs/NetworkRules.tla", serves_properties=["C16"],
              kind_free_text="TLA+ spec (Level A Valid(net) = documented rule set; Level B ImplOutcome = transcription of the "
                             "ObjState validators with a `pinned` variant), TLC exhaustive on (base network x fault) with "
                             "expected verdict per fault class proved in the model, every description replayed through "
                             "Network::from_yaml/from_json/from_file in three layouts, outcomes decided by TLC "
                             "(NetworkRulesTrace.tla)")
_NOTE = ("Trusted: TLC, the harness' text renderer (flow-style YAML/JSON written by hand, so malformed values reach the "
         "loaders unchanged), serde's projection for the field-by-field legacy comparison. Bounded: exhaustive for single "
         "faults (and pairs on one base) on the base family; random corridors beyond. Found F-C16-4 (out-of-range lockout "
         "reference on entry 0 was accepted; repaired by e2a096d).")
MANIFEST = {
    "C16": dict(engine="NetworkRules", design_ref="3 (C16)",
                technique="TLA+ spec + TLC model checking + spec->impl replay + TLC trace validation",
                text="TLC proves on the family that Valid is TRUE for every base, FALSE for every rule-breaking fault, TRUE "
                     "for every benign variation, and matches a stated table for non-finite values; the Level-B transcription "
                     "of the validators agrees with Valid on all single and double faults. Every description is then loaded "
                     "by the real code (10 loader/layout combinations) and TLC decides accepted <=> Valid, NoPanic, "
                     "LegacyEqual on the recorded outcomes.",
                note=_NOTE),
}
