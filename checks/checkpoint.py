"""Checkpoint group: C17 (every model object survives save/load in every advertised format, mid-run too)."""

FORMATS = ("yaml", "json", "bin")


def _act(a):
    """schedule entries are "step" | format (medium from the case's "via") | [action, medium]"""
    return a[0] if isinstance(a, list) else a


def nontrivial(d):
    # at least one save/load, and (unless the schedule ends there) something observed after it
    s = [_act(a) for a in d["sched"]]
    first = next((i for i, a in enumerate(s) if a in FORMATS), None)
    return first is not None and "step" in s[first:]


# ---- known-finding signatures: (type, format, failure kind), evaluated on the case descriptor and the failing events.
# A case is attributed to a known class only if EVERY failing line of that invariant in the case is explained by one of
# the known classes (an unexplained failure in the same case keeps the case a violation).

# F-C17-1: types that contain a `skip_serializing_if` field which is actually skipped in the state reached
T_BIN_SKIPPED = {"SetSpeedTrainSim.long", "ConsistSimulation.long", "LocomotiveSimulation.long", "SetSpeedTrainSim.grades", "FuelConverter.init40", "Locomotive.init40", "LocomotiveSimulation.init40", "Consist.init40", "Locomotive.relaxed", "Locomotive.mu", "LocomotiveSimulation.relaxed", "SpeedLimitTrainSim.mu", "FuelConverter", "Generator", "ElectricDrivetrain", "ElectricDrivetrain.bel", "ReversibleEnergyStorage",
                 "Locomotive.conv", "Locomotive.bel", "Locomotive.hybrid", "Consist", "LocomotiveSimulation", "LocomotiveSimulation.bel",
                 "LocomotiveSimulationVec", "ConsistSimulation", "SetSpeedTrainSim", "SetSpeedTrainSim.default",
                 "Network", "TrainConfig", "TrainSimBuilder", "TrainSimBuilder.init", "TrainSimBuilder.nan"}
# F-C17-2: types that contain a `Location`
T_BIN_LOCATION = {"SpeedLimitTrainSim.long", "Location", "Location.bounds", "SpeedLimitTrainSim", "SpeedLimitTrainSim.finished", "SpeedLimitTrainSim.grades"}
# F-C17-3: types that contain a non-finite number in the state reached
T_JSON_NONFINITE = {"SetSpeedTrainSim.long", "SpeedLimitTrainSim.long", "SpeedLimitTrainSim.mu", "PathTpc.finished", "SpeedLimitTrainSim.finished", "SetSpeedTrainSim.default", "TrainSimBuilder.nan"}


def _cls(desc, e):
    """known class of a failed SaveLoad event, or None"""
    k = desc.get("kind")
    if e.get("ok") or e.get("stage") != "de":
        return None
    if e["fmt"] == "bin" and e.get("errclass") == "any" and e.get("locations", 0) > 0 and k in T_BIN_LOCATION:
        return "bin_location"
    # (a refused size or bytes behind a document are not what a skipped field produces)
    if e["fmt"] == "bin" and e.get("errclass") not in ("any", "limit", "trailing") and e.get("skipped", 0) > 0 and k in T_BIN_SKIPPED:
        return "bin_skipped"
    if e["fmt"] == "json" and e.get("errclass") == "null" and e.get("nonfinite", 0) > 0 and k in T_JSON_NONFINITE:
        return "json_nonfinite"
    return None


def _sl_sig(which):
    def f(desc, events, inv):
        if inv != "SaveLoadOk":
            return False
        bad = [e for e in events if e.get("ev") == "SaveLoad" and not e.get("ok")]
        cl = [_cls(desc, e) for e in bad]
        return bool(bad) and all(cl) and which in cl
    return f


# ---- selftest: one recorded field corrupted -> the trace spec must name the invariant at exactly that line

def _corrupt(ev, pred, change, expect, nojson=False, after_json=False):
    sched = {e["case"]: [_act(a) for a in e["desc"]["sched"]] for e in ev if e.get("ev") == "begin"}
    json_ok = set()
    for i, e in enumerate(ev):
        c = e.get("case")
        if e.get("ev") == "SaveLoad" and e.get("fmt") == "json" and e.get("ok"):
            json_ok.add(c)
        if nojson and "json" in sched.get(c, []):
            continue
        if after_json and c not in json_ok:
            continue
        if pred(e):
            change(e)
            return ev, i, expect
    return None


def _sl(fmt):
    return lambda e: e.get("ev") == "SaveLoad" and e.get("ok") and e.get("fmt") == fmt


CORRUPT = {
    "step_digest": lambda ev: _corrupt(ev, lambda e: e.get("ev") == "Step" and e.get("ok"), lambda e: e.update(d=[1, 2], dev=1 << 30),
                                       ["Resume"], nojson=True),
    "step_outcome": lambda ev: _corrupt(ev, lambda e: e.get("ev") == "Step" and e.get("ok"), lambda e: e.update(ok=False),
                                        ["Resume"], nojson=True),
    "json_step_beyond_tolerance": lambda ev: _corrupt(ev, lambda e: e.get("ev") == "Step" and e.get("ok"),
                                                      lambda e: e.update(d=[1, 2], dev=5000), ["ResumeJsonTol"], after_json=True),
    "second_trip_digest": lambda ev: _corrupt(ev, _sl("yaml"), lambda e: e.update(d2=[1, 2]), ["Idempotent"]),
    "second_trip_fails": lambda ev: _corrupt(ev, _sl("bin"), lambda e: e.update(ok2=False), ["Idempotent"]),
    "yaml_number_1ulp_off": lambda ev: _corrupt(ev, _sl("yaml"), lambda e: e.update(load_ulps=1), ["LoadFidelity"]),
    "json_number_2ulp_off": lambda ev: _corrupt(ev, _sl("json"), lambda e: e.update(load_ulps=2), ["LoadFidelity"]),
    "load_fails_unknown_class": lambda ev: _corrupt(ev, _sl("yaml"), lambda e: e.update(ok=False, stage="de", errclass="other"),
                                                    ["SaveLoadOk"]),
    "file_load_fails_memory_load_ok": lambda ev: _corrupt(ev, lambda e: _sl("yaml")(e) and e.get("via") != "mem",
                                                          lambda e: e.update(ok=False, stage="de", errclass="trailing"),
                                                          ["SaveLoadOk", "MediumIndependent"]),
    "file_load_differs_from_memory_load": lambda ev: _corrupt(ev, lambda e: _sl("json")(e) and e.get("via") != "mem",
                                                              lambda e: e.update(dm=[1, 2]), ["MediumIndependent"]),
    "history_column_not_saved": lambda ev: _corrupt(ev, _sl("json"), lambda e: e.update(colmis=1), ["HistoryColumns"]),
    "start_digest": lambda ev: _corrupt(ev, lambda e: e.get("ev") == "Start", lambda e: e.update(d=[1, 2]), ["RefStable"]),
}


RULE = ("cases = every schedule over {step, yaml, json, bin} that TLC enumerates for every object kind in the bounded "
        "Checkpoint configs (each step index is a checkpoint position) + every schedule of depth 2 over {step, format x medium} "
        "(media: memory, from_reader, fresh file, other spelling of the format name, file written over the longer checkpoint of "
        "an earlier run) for 16 kinds (quick: a sample of 800) + a sample of the depth-2 schedules of 'large' objects (documents "
        "above 1 MiB: dense histories 600..3000 steps into a run, a 4000-link network) through files / readers + pinned (kind x "
        "format) cases through temp files, over longer files, through from_reader and the alias spellings (incl. "
        "index newtypes at 0, 1, u32::MAX-1, u32::MAX) + 5 pinned large cases + pinned train runs on a multi-grade corridor checkpointed 30..630 steps in + "
        "seeded random schedules on toy (dyadic) and realistic-scale objects with checkpoints up to 400 steps into a run; "
        "distinct = distinct case descriptors; non-trivial = at least one save/load followed by a step / use")

ASSUME = ["objects are saved and loaded only through the public SerdeAPI (to_str/from_str, to_bincode/from_bincode, from_reader, "
          "to_file/from_file with temp files under the system temp dir; format names as advertised: yaml|yml|json|bin in any "
          "case, with or without a leading dot); Network::from_file's fallback to the legacy NetworkOld layout is not driven",
          "medium 'over': the re-used path holds the document of the same case's object at the END of its checkpoint-free run, "
          "written with to_file (for static kinds that document has the same length as the one written over it)",
          "observable trajectory = digest (60 bits of FNV-1a over the canonical value tree: sorted keys, floats by bit "
          "pattern) of every `state`, `history` and `i` sub-tree after each step plus the public getters force_max / mu / "
          "mass / assert_limits of every locomotive and consist; static types: digest of the result of using the object "
          "(train params, built sim, extended path)",
          "tolerances exist only where the statement grants them: a number read from JSON may be 1 unit in the last place off "
          "(LoadFidelity), and after a JSON load a step may differ from the reference by a class-relative 1e-9 (TolQ in "
          "CheckpointTrace.tla); yaml / bin, idempotence and everything before a JSON load are compared bit-exactly. Since the "
          "float_roundtrip repair the JSON path is exact in practice (0 one-ulp loads, 0 tolerance matches in trace_stats)",
          "a failed save/load leaves the run continuing on the original object (the failure is reported on that line)",
          "what is not serialised is seen only through the structural rule HistoryColumns (saved `state` and `history` "
          "have the same field names) and, for PathTpc, the public getters; other non-serialised state is invisible to the digest",
          "failures are recorded at most 3 times per (kind, event, invariant, format, error class) signature; all are "
          "counted in trace_stats"]

GROUP = dict(
    name="checkpoint", bin="avh_checkpoint",
    model_spec="MCCheckpoint.tla", trace_spec="CheckpointTrace.tla", trace_cfg="CheckpointTrace.cfg",
    models={
        "quick": [dict(cfg="MCCheckpoint_quick.cfg", emit=True, max_emit=2400, workers=4, timeout=120),
                  dict(cfg="MCCheckpoint_media.cfg", emit=True, max_emit=800, workers=4, timeout=120),
                  dict(cfg="MCCheckpoint_large.cfg", emit=True, max_emit=4, workers=2, timeout=120),
                  dict(cfg="MCCheckpoint_deepcheck.cfg", emit=False, workers=4, timeout=120)],
        "thorough": [dict(cfg="MCCheckpoint_quick.cfg", emit=True, workers=4, timeout=300),
                     dict(cfg="MCCheckpoint_mediaall.cfg", emit=True, max_emit=5000, workers=4, timeout=300),
                     dict(cfg="MCCheckpoint_largeall.cfg", emit=True, max_emit=60, workers=4, timeout=300),
                     dict(cfg="MCCheckpoint_deep.cfg", emit=True, max_emit=25000, workers=8, timeout=900)],
    },
    gen_n={"quick": 150, "thorough": 2000},
    per_case_ms=120000,
    harness_timeout={"quick": 300, "thorough": 2400},
    trace_timeout={"quick": 300, "thorough": 1800},
    nontrivial=nontrivial,
    rule=RULE,
    props={
        "C17": dict(invariants=["SaveLoadOk", "MediumIndependent", "Idempotent", "LoadFidelity", "HistoryColumns", "Resume", "ResumeJsonTol", "RefStable",
                                "NoPanic", "HarnessOk"],
                    assumptions=ASSUME, level="exploration", exhaustive=False),
    },
    sigs={"bin_skipped": _sl_sig("bin_skipped"), "bin_location": _sl_sig("bin_location"),
          "json_nonfinite": _sl_sig("json_nonfinite")},
    # Level-B variants with one thing not surviving the round trip: TLC must find the schedule that exposes it
    fault_models=[dict(cfg="MCCheckpoint_fault_skip.cfg", expect=["Stutter"]),     # a state field is #[serde(skip)] / reset by init()
                  dict(cfg="MCCheckpoint_fault_i.cfg", expect=["Stutter"]),        # the step counter is not serialised
                  dict(cfg="MCCheckpoint_fault_hist.cfg", expect=["Stutter"]),     # a history column is not serialised
                  dict(cfg="MCCheckpoint_fault_drift.cfg", expect=["Idempotent", "Stutter"]),  # a parser that does not round-trip
                  dict(cfg="MCCheckpoint_fault_tail.cfg", expect=["MediumIndependent", "SaveLoadOk"]),  # to_file does not truncate
                  dict(cfg="MCCheckpoint_fault_cap.cfg", expect=["MediumIndependent", "SaveLoadOk"])],  # capped binary reader
    selftest_cases=6,
    corrupt=CORRUPT,
    # (a --replay run has no model part and a single case: nothing to complain about)
    vacuity=lambda r: None if not r["models"] else ("no step was recorded" if r["stats"].get("steps", 0) == 0 else
                       "no save/load succeeded" if r["stats"].get("sl_ok", 0) == 0 else
                       "no step followed a successful load" if r["stats"].get("after_load_steps", 0) == 0 else
                       "steps never change the observable digest" if r["stats"].get("moved", 0) == 0 else
                       "no save/load went through a file" if r["stats"].get("via_file", 0) == 0 else
                       "no save/load went through from_reader" if r["stats"].get("via_reader", 0) == 0 else
                       "no save/load used another spelling of the format name" if r["stats"].get("via_alias", 0) == 0 else
                       "no document was written over a longer one" if r["stats"].get("over_shorter", 0) == 0 else
                       "no binary document above 1 MiB went through a file / reader" if r["stats"].get("big_bin_nonmem", 0) == 0 else
                       "no text document above 1 MiB went through a file / reader" if r["stats"].get("big_text_nonmem", 0) == 0 else None),
)

ENGINE = dict(name="Checkpoint", path="specs/Checkpoint.tla", serves_properties=["C17"],
              kind_free_text="TLA+ spec of the refinement statement 'a checkpoint is a stuttering step of the observable "
                             "trajectory' (Level A Stutter/Idempotent over <<kind, step, traj>>; Level B abstract object with "
                             "serialised fields and a lazily rebuilt cache, fault variants for vacuity); TLC enumerates every "
                             "schedule over {Step, SaveLoad(yaml|json|bin)} per object kind, each schedule is replayed on real "
                             "altrios objects through the public SerdeAPI, and TLC validates the recorded digests "
                             "(CheckpointTrace.tla)")
_NOTE = ("Exploration, not proof: byte-level encode/decode fidelity is decided by digest comparison on recorded runs; what is "
         "model-checked is the schedule space (every interleaving of steps and checkpoints up to depth 6 per kind, depth 4 for "
         "static / heavy kinds) and the stuttering statement on the abstract object. Trusted: TLC, the canonical-tree digest "
         "(FNV-1a, 60 bits: a collision would hide a difference), serde's Serialize impls as the projection. Known format-level "
         "defects F-C17-1..3 are matched by (type, format, failure kind) signatures; anything else is a violation (F-C17-4 JSON float "
         "parsing and F-C17-5 fresh-consist braking were found by this check and repaired; their inputs are replayed as regressions).")
_TECH = "TLA+ refinement statement + TLC schedule enumeration + spec->impl replay + TLC trace validation (digest comparison)"
MANIFEST = {
    "C17": dict(engine="Checkpoint", design_ref="3 (C17)", technique=_TECH, category="exploration",
                text="Exploration with a model-checked schedule space: TLC enumerates all schedules over {Step, SaveLoad(yaml), "
                     "SaveLoad(json), SaveLoad(bin)} up to depth 6 for 36 object kinds (components, locomotives incl. assert_limits = false, known-mu and raised-baseline-limit units, consists, traces, "
                     "train configs / builders, PathTpc finished and unfinished, locomotive / consist / set-speed / speed-limit "
                     "simulations, networks, est-time networks, locations) and checks that SaveLoad is a stuttering step of the "
                     "observable trajectory on the abstract object; every schedule (quick: depth 4 / 3; thorough: a 25 000 sample "
                     "of depth 6 / 4) plus seeded realistic-scale cases with checkpoints up to 400 steps into a run is replayed on "
                     "real objects through the public SerdeAPI; further configs enumerate the MEDIUM of each SaveLoad (memory, from_reader, "
                     "fresh file, alias spelling of the format, file written over a longer document) and the SIZE CLASS of the object "
                     "(large = documents above 1 MiB); TLC then requires on every recorded line: the round trip returns "
                     "Ok whatever the medium and size, a load through any medium gives the object the load through memory gives, a second round trip has the same digest, loaded numbers are bit-exact (json: within 1 ulp), and every "
                     "step after a load appends the digest of the checkpoint-free run (json: within 1e-9 relative).",
                note=_NOTE),
}
