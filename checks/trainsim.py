"""TrainSim group: C12 (kinematic bookkeeping, link location), C14 (set-speed run follows its trace, wheel power),
C07 (resistance forces equal their definitions), C11 (cross-level power/energy ledger, trip getters)."""


def nontrivial(d):
    k = d.get("kind", "ss")
    if k == "locate":
        return len(d["pos"]) >= 2
    if k == "strap":
        return len(d["moves"]) >= 1
    if k == "sl":
        return True
    if k == "vec":
        return any(nontrivial(x) for x in d["sims"])
    if k == "relist":
        return True
    return len(d["v"]) >= 3 and any(x > 0 for x in d["v"])


def _bump(ev, path, delta, expect, mode="ss", pred=None, res=None):
    """Adds `delta` to one field of one recorded step (k >= 2) of a run of the given mode whose trace is non-negative."""
    hdr = None
    for i, e in enumerate(ev):
        if e.get("ev") == "Hdr":
            hdr = e if (e["mode"] == mode and all(v >= 0 for v in e["tv"]) and res in (None, e.get("res"))) else None
        elif e.get("ev") == "begin":
            hdr = None
        elif e.get("ev") == "Step" and hdr is not None and e["k"] >= 2 and (pred is None or pred(e)):
            o = e
            for k in path[:-1]:
                o = o[k]
            o[path[-1]] += delta
            return ev, i, expect
    return None


def _bump_get(ev, key, idx, delta, expect):
    for i, e in enumerate(ev):
        if e.get("ev") == "Get":
            e[key][idx] += delta
            return ev, i, expect
    return None


def _bump_vec(ev, key, delta, expect):
    for i, e in enumerate(ev):
        if e.get("ev") == "GetVec":
            e[key][2] += delta
            return ev, i, expect
    return None


_RES = ("bel", "hybrid")


def _nres(units):
    return sum(1 for u in units if u.get("kind", "conv") in _RES)


def _stale_count(c):
    return isinstance(c, dict) and "units" in c and c.get("ctor") == "new" and "units0" in c and _nres(c["units0"]) != _nres(c["units"])


def sig_stale_res_count(desc, events, inv):
    """F-C11-1: a consist made by Consist::new whose number of battery-equipped units was changed through set_loco_vec;
    only the two unit-kilometre outputs."""
    if inv not in ("GetResKm", "GetNonResKm"):
        return False
    k = desc.get("kind", "ss")
    if k == "vec":
        return any(_stale_count(d.get("consist")) for d in desc["sims"])
    if k == "locate":
        s = sum(desc["pos"]) + 7 * len(desc["lens"])      # expand_locate: Consist::new with one diesel, then given a hybrid
        return s % 140 == 0
    if k == "relist":                                     # TLC-emitted (Consist::new list, set_loco_vec list)
        return sum(desc["u0"]) != sum(desc["u"])
    return k == "ss" and _stale_count(desc.get("consist"))


RULE = ("cases = every finished behaviour of the bounded Level-B models of TrainSim.tla (route x front-position "
        "sequence replayed as a real set-speed run; elevation profile x train length x Fwd/Unk/Bwd move sequence "
        "replayed into the real path_res::Strap) + seeded toy-scale dyadic set-speed runs (random routes, car mixes, "
        "consists incl. make-ups changed through set_loco_vec, irregular time stamps, negative speeds, demands beyond "
        "the consist's limits with and without limit assertions, vectors of 1-3 runs) + seeded realistic-scale "
        "speed-limited runs (mid-route starts, departure times, step sizes); distinct = "
        "distinct case descriptors (sha256); non-trivial = the train moves / at least one move")

A_COMMON = ["the harness projects saved state after every step() (save_interval Some(1)); the projection divides by "
            "constants (g, rho_air) or logged fields only (documented at the top of avh_trainsim.rs)",
            "set-speed runs: the initial state agrees with the first trace point in speed and time, unless the run keeps the "
            "default initial clock / the default initial speed 0 (rolling start): then the initial record's time / speed and "
            "KinTime / KinOffset of step 1 are not judged (all power relations of step 1 are); traces stay "
            "inside the route; trip getters of set-speed runs are read through a SpeedLimitTrainSim assembled from the "
            "final state, and only after runs that were not refused mid-step (an Err leaves the consist half-updated)"]
A_TOY = ["multiplicative relations are decided on toy-scale dyadic runs (16/32 m cars of 1024/2048 kg, elevations in 1/64 m, "
         "breakpoints spaced by powers of two, speeds in 1/2 m/s, time stamps in 1/4 s with power-of-two steps)",
         "quantities carrying g or rho_air are rounded to 1/128 N, 1/8 W, 1/4 J and compared with the quantisation bound "
         "derived in TrainSim.tla; lattice quantities are compared with tolerance 0"]
A_SL = ["speed-limited runs: generated single-line networks, constant posted speed, gentle grades, >= 15 cars (outside the "
        "known C03 defect classes); additive / order relations only, one quantisation unit per rounded term"]

GROUP = dict(
    name="trainsim", bin="avh_trainsim",
    model_spec="MCTrainSim.tla", trace_spec="TrainSimTrace.tla", trace_cfg="TrainSimTrace.cfg",
    models={
        "quick": [dict(cfg="MCTrainSim_locateQ.cfg", emit=True, max_emit=3000),
                  dict(cfg="MCTrainSim_strapE.cfg", emit=True, max_emit=4000),
                  dict(cfg="MCTrainSim_strapQ3.cfg", emit=False),
                  dict(cfg="MCTrainSim_ledger.cfg", emit=False),
                  dict(cfg="MCTrainSim_fault.cfg", emit=False),
                  dict(cfg="MCTrainSim_relist.cfg", emit=True)],
        "thorough": [dict(cfg="MCTrainSim_locateT.cfg", emit=True, max_emit=12000),
                     dict(cfg="MCTrainSim_strapE.cfg", emit=True),
                     dict(cfg="MCTrainSim_strapQ.cfg", emit=False, workers=12, timeout=900),
                     dict(cfg="MCTrainSim_strapT.cfg", emit=False, workers=12, timeout=1800),
                     dict(cfg="MCTrainSim_ledger.cfg", emit=False),
                     dict(cfg="MCTrainSim_fault.cfg", emit=False),
                     dict(cfg="MCTrainSim_relist.cfg", emit=True)],
    },
    gen_n={"quick": 320, "thorough": 2560},
    per_case_ms=30000,
    harness_timeout={"quick": 300, "thorough": 1800},
    trace_timeout={"quick": 600, "thorough": 3000},
    nontrivial=nontrivial,
    rule=RULE,
    props={
        "C12": dict(invariants=["KinTime", "KinOffset", "KinBack", "KinDist", "LocLink", "LocSum", "LocRange",
                                "NoPanic", "QOverflow", "HarnessOk"],
                    assumptions=A_COMMON + A_SL),
        "C14": dict(invariants=["FollowTime", "FollowSpeed", "MassCompound", "PwrAccel", "PwrRes", "PwrClip", "PwrDynCap",
                                "PwrEnergy", "PwrEnergyPos", "PwrEnergyNeg", "NegSpeedRejected", "RefusedOnlyNegative",
                                "NoPanic", "QOverflow", "HarnessOk"],
                    assumptions=A_COMMON + A_TOY),
        "C07": dict(invariants=["ResTowed", "ResMass", "ResWeight", "ResRolling", "ResBearing", "ResDavisB", "ResAero",
                                "ResGrade", "ResGradePoint", "ResCurve", "ResElevFront", "ResGradeFront", "ResGradeBack", "StrapOk",
                                "QOverflow", "HarnessOk"],
                    assumptions=A_COMMON + A_TOY + [
                        "the cumulative curve resistance is the path's own curve table (C06 checks it against the network); "
                        "toy curves stay below one degree per 100 ft so that it is on the lattice",
                        "a force record may match the definition at the state saved one step earlier or at its own state",
                        "runs under TrainRes::Point (assembled through SetSpeedTrainSim::new from the builder's parts): the "
                        "method-independent clauses (mass, weight, rolling, Davis-B, bearing, aero) and the grade at the train's "
                        "mid-point; its curve force and its elev_front / grade_front / grade_back fields are not judged (the C07 "
                        "text defines them over the train's length / at its ends, which is the Strap method)"]),
        "C11": dict(invariants=["LedPwrTrainConsist", "LedPwrConsistLocos", "LedEnergyOut", "LedEnergyPos", "LedEnergyNeg",
                                "LedFuel", "LedRes", "GetPlain", "GetAnnual", "GetMgKm", "GetResKm", "GetNonResKm",
                                "VecFuel", "VecRes", "VecMgKm", "VecKm", "VecResKm", "VecNonResKm", "QOverflow", "HarnessOk"],
                    assumptions=A_COMMON + A_SL + [
                        "almost_eq of the code (1e-8 relative / absolute) widened by the quantisation of both sides",
                        "getters are read with simulation_days = Some(days); the None default is not asserted"]),
    },
    sigs={"stale_res_count": sig_stale_res_count},
    # the make-up model with the count of battery units cached at Consist::new (the code as it is) re-finds F-C11-1
    fault_models=[dict(cfg="MCTrainSim_relistC.cfg", expect=["RelistResKm", "RelistNonResKm"])],
    # the ledger fault config (MCTrainSim_fault.cfg) is a positive invariant (FaultDetected) of the regular tiers
    selftest_cases=32,
    corrupt={
        "front_offset": lambda ev: _bump(ev, ["x"], 1, ["KinOffset"]),
        "rear_offset": lambda ev: _bump(ev, ["xb"], 1, ["KinBack"]),
        "front_link": lambda ev: _bump(ev, ["link"], 90, ["LocLink"]),
        "sl_distance": lambda ev: _bump(ev, ["dist"], 3, ["KinDist"], mode="sl"),
        "accel_power": lambda ev: _bump(ev, ["pan"], 1, ["PwrAccel"]),
        "wheel_power": lambda ev: _bump(ev, ["pw"], 1000, ["PwrClip"]),
        "wheel_energy": lambda ev: _bump(ev, ["e"], 100, ["PwrEnergy"]),
        "grade_force": lambda ev: _bump(ev, ["rgl"], 1, ["ResGrade"], res="strap"),
        "point_grade_force": lambda ev: _bump(ev, ["rgl"], 1, ["ResGradePoint"], res="point"),
        "rear_grade": lambda ev: _bump(ev, ["gb"], 1, ["ResGradeBack"], res="strap"),
        "aero_force": lambda ev: _bump(ev, ["ae"], 1, ["ResAero"]),
        "consist_energy": lambda ev: _bump(ev, ["c", "e"], 100, ["LedEnergyOut"]),
        "fuel_getter": lambda ev: _bump(ev, ["c", "gef"], 100, ["LedFuel"]),
        "sl_consist_power": lambda ev: _bump(ev, ["c", "out"], 100, ["LedPwrTrainConsist"], mode="sl"),
        "annual_km": lambda ev: _bump_get(ev, "km", 1, 5000, ["GetAnnual"]),
        "res_km": lambda ev: _bump_get(ev, "reskm", 0, 5000, ["GetResKm"]),
        "vec_fuel": lambda ev: _bump_vec(ev, "fuel", 5000, ["VecFuel"]),
        "vec_nonres_km": lambda ev: _bump_vec(ev, "nonreskm", 5000, ["VecNonResKm"]),
    },
)


def _vacuity(r):
    owned = {i for p in GROUP["props"].values() for i in p["invariants"]}
    stray = sorted({v[2] for v in r["viols"]} - owned)
    if stray:
        return f"the trace spec reported invariants no property owns: {stray}"
    if r["viols"]:
        # the coverage counters are derived from recorded values: they are only meaningful on a clean run (a property
        # of this group that fails is reported as VIOLATION; its siblings must not turn into tool errors because the
        # failing values also starve a counter)
        return None
    s = r["stats"]
    need = dict(ss_steps=200, sl_steps=100, clipped=5, unclipped=50, braking=20, boundary=20, multilink=5,
                astride=50, curved=20, negerr=5, strap=200, getters=1,
                # (counts of what the runs were given: re-listed consists, limit assertions off, demands beyond the
                # published limits, departure times, vectors of simulations)
                relisted=10, relisted_res=3, point_steps=100, point_graded=50, nolim=5, clip_hi=30, clip_lo=30, nolim_clip=10, sl_t0=2, vecs=5, vec_multi=3)
    low = [f"{k}={s.get(k, 0)}<{v}" for k, v in need.items() if s.get(k, 0) < v]
    if low:
        return "the recorded runs do not exercise: " + ", ".join(low)
    if s.get("rejected", 0) * 10 > r["n_cases"]:
        return "more than 10% of the generated cases were rejected by altrios' own validation"
    if s.get("othererr", 0) * 20 > s.get("ss_runs", 0):
        return "more than 5% of the set-speed runs were refused for a reason other than a negative speed"
    if s.get("inexact", 0):
        return "a toy-scale header was not exactly representable"
    return None


GROUP["vacuity"] = _vacuity

ENGINE = dict(name="TrainSim", path="specs/TrainSim.tla", serves_properties=["C07", "C11", "C12", "C14"],
              kind_free_text="TLA+ spec (Level A: kinematics / power / resistance / ledger relations over header + two saved "
                             "steps; Level B: set_link_and_offset on the half-integer lattice, the two cached indices of "
                             "path_res::Strap with LinSearchHint::calc_idx, a three-level accumulator with fault injection, the consist's make-up under Consist::new / set_loco_vec "
                             "with the unit-kilometre outputs), "
                             "TLC exhaustive on the bounded models, every finished behaviour replayed into real set-speed runs / "
                             "the real Strap, recorded steps of set-speed and speed-limited runs validated by TLC "
                             "(TrainSimTrace.tla)")
_NOTE = ("Trusted: TLC, the harness' projection (Q-encoding, divisions by g / rho_air / logged fields), the materialisation of "
         "descriptors as altrios objects (validated by altrios itself). Bounded: exhaustive only up to the lattice bounds of the "
         "MC configs; seeded random runs beyond. Multiplicative relations only at toy scale; realistic-scale runs contribute "
         "additive / order relations with explicit tolerances.")
_TECH = "TLA+ spec + TLC model checking + spec->impl replay + TLC trace validation"
MANIFEST = {
    "C12": dict(engine="TrainSim", design_ref="3 (C12)", technique=_TECH,
                text="TLC checks Locate on every reachable state of the bounded set_link_and_offset model (routes of 1..4 links, "
                     "half-integer fronts incl. exact boundaries and multi-link jumps), every (route, front sequence) is replayed "
                     "as a real dyadic set-speed run, and KinTime/KinOffset/KinBack/KinDist/Loc* are evaluated by TLC on every "
                     "saved step of those, of seeded toy runs (tolerance 0) and of realistic speed-limited runs (quantisation "
                     "tolerance).", note=_NOTE),
    "C14": dict(engine="TrainSim", design_ref="3 (C14)", technique=_TECH,
                text="On every saved step of toy-scale dyadic set-speed runs TLC checks time/speed against the trace, "
                     "pwr_accel/m_c against the trace's kinetic-energy rate (exact), pwr_res against the six saved forces times "
                     "mean speed, the clip against the consist's published limits and ramp, the energy increments against the "
                     "trace dt, and that exactly the steps with a negative prescribed speed are refused.", note=_NOTE),
    "C07": dict(engine="TrainSim", design_ref="3 (C07)", technique=_TECH,
                text="E(x), Slopes(x) and the aggregated rolling / Davis-B / bearing / drag coefficients are recomputed in the spec "
                     "from the header (link elevation points, car table); every saved force record of the toy runs is compared "
                     "exactly (normalised onto the dyadic lattice). The two cached indices of path_res::Strap are model-checked "
                     "against the definition over all profiles of 2..5 breakpoints and Fwd/Unk/Bwd move sequences to depth 4, "
                     "and the sequences are replayed into the real Strap.", note=_NOTE),
    "C11": dict(engine="TrainSim", design_ref="3 (C11)", technique=_TECH,
                text="On every saved step of set-speed and speed-limited runs TLC compares train, consist and summed-locomotive "
                     "power and cumulative energies (out, pos, neg, fuel, battery) and the consist getters (also for consists whose "
                     "make-up was changed through set_loco_vec after Consist::new); at the end of every finished run the trip "
                     "getters against the totals and the 365.25/days factor, battery-unit / other-unit kilometres against distance x "
                     "the unit counts of the recorded make-up, and the outputs of a SpeedLimitTrainSimVec of 1-3 finished runs "
                     "against the sums of the runs' own outputs. A three-level accumulator "
                     "model shows the equalities inductive and violated by any skipped update (fault config).", note=_NOTE),
}
