"""History group: C19 (histories and step counters stay aligned through the whole object tree)."""


def nontrivial(d):
    # something can be saved: an interval other than None occurs and at least one step / walk is attempted
    s = d["sched"]
    return any(a[0] in ("New", "Set", "Relist") and a[1] > 0 for a in s) and any(a[0] in ("Step", "Walk", "WalkErr") for a in s)


# ---- bin/selftest: one recorded field corrupted -> the trace spec must name the clause at exactly that line
def _corrupt(ev, change, expect):
    for i, e in enumerate(ev):
        if e.get("ev") == "Op" and e.get("name") in ("Walk", "WalkErr") and len(e["nodes"]) >= 3 and len(e["nodes"][0]["hi"]) >= 2:
            change(e["nodes"])
            return ev, i, expect
    return None


def _pop(ns):
    ns[-1]["hi"].pop(); ns[-1]["lmin"] -= 1; ns[-1]["lmax"] -= 1


def _extra(ns):
    for n in ns:
        n["hi"].append(n["i"] - 1); n["lmin"] += 1; n["lmax"] += 1


CORRUPT = {
    "interval_not_propagated": lambda ev: _corrupt(ev, lambda ns: ns[-1].update(iv=ns[-1]["iv"] + 1), ["Propagated"]),
    "one_history_shorter": lambda ev: _corrupt(ev, _pop, ["SameLength"]),
    "entry_of_another_step": lambda ev: _corrupt(ev, lambda ns: ns[1]["hi"].__setitem__(1, ns[1]["hi"][1] + 1), ["SameStep"]),
    "counter_ahead": lambda ev: _corrupt(ev, lambda ns: ns[-1].update(i=ns[-1]["i"] + 1), ["CountersEqual"]),
    "one_save_too_many_everywhere": lambda ev: _corrupt(ev, _extra, ["SavedCount"]),
    "column_shorter": lambda ev: _corrupt(ev, lambda ns: ns[0].update(lmin=ns[0]["lmin"] - 1), ["SameLength"]),
}

RULE = ("cases = every maximal schedule over {construction with the units' own / the consist constructor's / the simulation's "
        "interval, re-listed units + re-applied interval, set_save_interval(None|1|2|3), initial save, step, failing step} reached by TLC "
        "in the bounded History configs (x consist make-up), each run against LocomotiveSimulation, ConsistSimulation, "
        "SetSpeedTrainSim, SpeedLimitTrainSim and a SpeedLimitTrainSimVec of two simulations (interval set through the vector), + seeded whole runs through walk()/walk_timed_path() with random consist, "
        "interval (None..10), length and failing step; distinct = distinct case descriptors (sha256); non-trivial = a "
        "non-None interval occurs and at least one step is attempted")

ASSUME = ["the projection is generic: every JSON object of serde_json::to_value(sim) that owns a `history` with an `i` column is a node; "
          "state.i is read as 1 when serde omits a default-valued state",
          "locomotive kinds: conventional and battery-electric (build::loco at realistic scale) and altrios' default HybridLoco; in a "
          "MIXED consist under SpeedLimitTrainSim the hybrid's solve fails around step 6 (an error inside altrios' hybrid control, not "
          "a C19 matter): such a step counts as a failing step (nothing saved, nothing incremented is still checked), the run ends "
          "there, and the record is counted in trace_stats.unexpected; DummyLoco is not driven",
          "the initial save is walk() called while nothing is left to do (the real save_state entry point is private)",
          "failing steps are provoked through public fields (power / speed trace value, friction-brake force) right before step()",
          "path-driven walks (SpeedLimitTrainSim) take the number of executed steps from the simulation's own top-level counter"]

_MAY0 = ()

GROUP = dict(
    name="history", bin="avh_history",
    model_spec="MCHistory.tla", trace_spec="HistoryTrace.tla", trace_cfg="HistoryTrace.cfg",
    models={
        "quick": [dict(cfg="MCHistory_quick.cfg", emit=True, max_emit=1100, workers=8, timeout=300),
                  # construction intervals (units' own / Consist::new's / simulation's) and re-listed units, short schedules
                  dict(cfg="MCHistory_cons.cfg", emit=True, max_emit=500, workers=8, timeout=300),
                  dict(cfg="MCHistory_kinds.cfg", emit=False, workers=8, timeout=300)],
        "thorough": [dict(cfg="MCHistory_thorough.cfg", emit=True, max_emit=20000, workers=8, timeout=1800),
                     dict(cfg="MCHistory_consT.cfg", emit=True, max_emit=6000, workers=8, timeout=1800),
                     dict(cfg="MCHistory_thoroughK.cfg", emit=False, workers=8, timeout=1800)],
    },
    gen_n={"quick": 150, "thorough": 2000},
    per_case_ms=20000,
    nontrivial=nontrivial,
    rule=RULE,
    props={
        "C19": dict(invariants=["SameLength", "SameStep", "CountersEqual", "StepIndex", "SavedCount", "Entries",
                                "DisabledEmpty", "Propagated"],
                    assumptions=ASSUME, exhaustive=False),
    },
    sigs={},
    # Level B with one rule of the code changed: every Level-A clause family can fail in the model
    fault_models=[dict(cfg="MCHistory_fault_skip_fric.cfg", expect=["Propagated"]),
                  dict(cfg="MCHistory_fault_skip_gen.cfg", expect=["Propagated"]),
                  dict(cfg="MCHistory_fault_gate_next.cfg", expect=["SameLength", "SameStep", "SavedCount", "Entries"]),
                  dict(cfg="MCHistory_fault_save_on_err.cfg", expect=["SavedCount", "Entries"]),
                  dict(cfg="MCHistory_fault_step_first.cfg", expect=["SavedCount", "Entries", "StepIndex"]),
                  # Consist::set_save_interval returning early when the consist already has the value
                  dict(cfg="MCHistory_fault_con_early_return.cfg", expect=["Propagated"])],
    corrupt=CORRUPT, selftest_cases=30,
    vacuity=lambda r: (None if not r["models"] else          # --replay of a single case: nothing to balance
                       "no action was recorded" if r["stats"].get("ops", 0) == 0 else
                       "no history entry was ever saved" if r["stats"].get("saved", 0) <= 0 else
                       "no failing step was recorded" if r["stats"].get("errsteps", 0) == 0 else
                       f"{r['stats']['panics']} cases panicked / aborted / timed out inside altrios (not a C19 verdict; see trace)" if r["stats"].get("panics", 0) else
                       f"{r['stats']['shape']} recorded object trees do not have the nodes History.Build expects (new history-bearing object? update the spec)" if r["stats"].get("shape", 0) else
                       f"{r['stats']['unexpected']} actions had an outcome (Ok/Err) the harness did not intend" if r["stats"].get("unexpected", 0) * 20 > r["stats"].get("ops", 0) else None),
    harness_timeout={"quick": 120, "thorough": 1500},
    trace_timeout={"quick": 120, "thorough": 1500},
)

ENGINE = dict(name="History", path="specs/History.tla", serves_properties=["C19"],
              kind_free_text="TLA+ spec (Level A: SameLength/SameStep/CountersEqual/StepIndex/SavedCount/Entries/DisabledEmpty/Propagated "
                             "against a log of executed calls; Level B: per-object gates, gating ancestors, propagation path and "
                             "solve-save-step order as coded), TLC exhaustive over schedules x consists x simulation kinds, every maximal "
                             "schedule replayed into the five real simulation kinds, every recorded object tree validated by TLC "
                             "(HistoryTrace.tla)")
_NOTE = ("Trusted: TLC, serde's projection of the simulation objects, the harness' path->node classification. Bounded: schedules of "
         "<= 8 actions with <= 2 interval changes, intervals None/1/2/3, 1-3 locomotives (conventional / battery-electric / hybrid); "
         "whole walks up to ~140 steps with intervals up to 10. Hybrids in mixed consists stop speed-limited runs after ~5 steps.")
_TECH = "TLA+ spec + TLC model checking + spec->impl replay + TLC trace validation"
MANIFEST = {
    "C19": dict(engine="History", design_ref="3 (C19)", technique=_TECH,
                text="TLC checks that the implementation-shaped Level B (independent `i % interval == 0` gate per object exactly where "
                     "the code has one, train -> consist -> locomotive -> components propagation, solve/save/step order) implies the "
                     "alignment clauses on every reachable state of the bounded model, emits every maximal schedule, and re-evaluates "
                     "the same clauses on the object tree the real LocomotiveSimulation / ConsistSimulation / SetSpeedTrainSim / "
                     "SpeedLimitTrainSim (incl. walk_timed_path) / SpeedLimitTrainSimVec produced after every action, construction with "
                     "different intervals for units, Consist::new and simulation, and re-listed units included.",
                note=_NOTE),
}
