"""History group: C19 (histories and step counters stay aligned through the whole object tree)."""


def nontrivial(d):
    # something can be saved: an interval other than None occurs and at least one step / walk is attempted
    s = d["sched"]
    return any(a[0] in ("New", "Set") and a[1] > 0 for a in s) and any(a[0] in ("Step", "Walk", "WalkErr") for a in s)


RULE = ("cases = every maximal schedule over {set_save_interval(None|1|2|3), initial save, step, failing step} reached by TLC "
        "in the bounded History configs (x consist make-up), each run against LocomotiveSimulation, ConsistSimulation, "
        "SetSpeedTrainSim and SpeedLimitTrainSim, + seeded whole runs through walk()/walk_timed_path() with random consist, "
        "interval (None..10), length and failing step; distinct = distinct case descriptors (sha256); non-trivial = a "
        "non-None interval occurs and at least one step is attempted")

ASSUME = ["the projection is generic: every JSON object of serde_json::to_value(sim) that owns a `history` with an `i` column is a node; "
          "state.i is read as 1 when serde omits a default-valued state",
          "locomotive kinds: conventional and battery-electric (build::loco); HybridLoco and DummyLoco are not driven",
          "the initial save is walk() called while nothing is left to do (the real save_state entry point is private)",
          "failing steps are provoked through public fields (power / speed trace value, friction-brake force) right before step()",
          "path-driven walks (SpeedLimitTrainSim) take the number of executed steps from the simulation's own top-level counter"]

_MAY0 = ()

GROUP = dict(
    name="history", bin="avh_history",
    model_spec="MCHistory.tla", trace_spec="HistoryTrace.tla", trace_cfg="HistoryTrace.cfg",
    models={
        "quick": [dict(cfg="MCHistory_quick.cfg", emit=True, max_emit=1500, workers=8, timeout=120),
                  dict(cfg="MCHistory_kinds.cfg", emit=False, workers=8, timeout=120)],
        "thorough": [dict(cfg="MCHistory_thorough.cfg", emit=True, max_emit=40000, workers=8, timeout=900),
                     dict(cfg="MCHistory_thoroughK.cfg", emit=False, workers=8, timeout=900)],
    },
    gen_n={"quick": 150, "thorough": 3000},
    per_case_ms=20000,
    nontrivial=nontrivial,
    rule=RULE,
    props={
        "C19": dict(invariants=["SameLength", "SameStep", "CountersEqual", "StepIndex", "SavedCount", "Entries",
                                "DisabledEmpty", "Propagated"],
                    assumptions=ASSUME, exhaustive=False),
    },
    sigs={},
    vacuity=lambda r: ("no action was recorded" if r["stats"].get("ops", 0) == 0 else
                       "no history entry was ever saved" if r["stats"].get("saved", 0) <= 0 else
                       "no failing step was recorded" if r["stats"].get("errsteps", 0) == 0 else
                       f"{r['stats']['panics']} cases panicked / aborted / timed out inside altrios (not a C19 verdict; see trace)" if r["stats"].get("panics", 0) else
                       f"{r['stats']['shape']} recorded object trees do not have the nodes History.Build expects (new history-bearing object? update the spec)" if r["stats"].get("shape", 0) else
                       f"{r['stats']['unexpected']} actions had an outcome (Ok/Err) the harness did not intend" if r["stats"].get("unexpected", 0) * 20 > r["stats"].get("ops", 0) else None),
    harness_timeout={"quick": 120, "thorough": 1500},
    trace_timeout={"quick": 120, "thorough": 1500},
)

ENGINE = dict(name="History", path="specs/History.tla", serves_properties=["C19"],
              kind_free_text="TLA+ spec (Level A: SameLength/SameStep/CountersEqual/StepIndex/SavedCount/Entries/DisabledEmpty/Propagated "
                             "against a log of executed calls; Level B: per-object gates, gating ancestors, propagation path and "
                             "solve-save-step order as coded), TLC exhaustive over schedules x consists x simulation kinds, every maximal "
                             "schedule replayed into the four real simulation kinds, every recorded object tree validated by TLC "
                             "(HistoryTrace.tla)")
_NOTE = ("Trusted: TLC, serde's projection of the simulation objects, the harness' path->node classification. Bounded: schedules of "
         "<= 8 actions with <= 2 interval changes, intervals None/1/2/3, 1-3 locomotives (conventional / battery-electric); whole "
         "walks up to ~140 steps with intervals up to 10. HybridLoco not driven.")
_TECH = "TLA+ spec + TLC model checking + spec->impl replay + TLC trace validation"
MANIFEST = {
    "C19": dict(engine="History", design_ref="3 (C19)", technique=_TECH,
                text="TLC checks that the implementation-shaped Level B (independent `i % interval == 0` gate per object exactly where "
                     "the code has one, train -> consist -> locomotive -> components propagation, solve/save/step order) implies the "
                     "alignment clauses on every reachable state of the bounded model, emits every maximal schedule, and re-evaluates "
                     "the same clauses on the object tree the real LocomotiveSimulation / ConsistSimulation / SetSpeedTrainSim / "
                     "SpeedLimitTrainSim (incl. walk_timed_path) produced after every action.",
                note=_NOTE),
}
